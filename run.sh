#!/bin/bash
# ./run.sh <Cxx> quick|thorough   |   ./run.sh replay <path>
cd "$(dirname "$0")"
exec python3 tools/run_check.py "$@"
