#!/bin/bash
# Offline build of every harness configuration (fresh restore safe).
set -e
cd "$(dirname "$0")"
exec python3 tools/run_check.py setup
