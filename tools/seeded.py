#!/usr/bin/env python3
"""Seeded-change bookkeeping (self-validation, not a registered check).

  seeded.py confirm <worktree> <k> <prop>   confirm a sub-agent's change in its scratch worktree:
        patch applies, test suite passes with it, demo fails with it and passes without it;
        on success copy it to /verif/seeded/<prop>-<n>/ with meta.json
  seeded.py check [<id> ...]                apply each kept change to /repo, run the property's quick
        check (and thorough with --thorough), revert; record the outcome in meta.json
  seeded.py table                           markdown table of kept changes and which check catches them
"""
import json, os, re, subprocess, sys, shutil, time
ROOT = os.path.dirname(os.path.dirname(os.path.abspath(__file__)))
SEEDED = os.path.join(ROOT, "seeded")
REPO = "/repo"


def _touch_changed(repo, files=None):
    """cargo decides by mtime: make sure files changed by an apply / revert are seen as newer than the last build."""
    import time
    if files is None:
        out = subprocess.run(["git", "-C", repo, "diff", "--name-only"], capture_output=True, text=True).stdout
        files = [f for f in out.splitlines() if f.strip()]
    now = time.time() + 1
    for f in files:
        p = os.path.join(repo, f)
        if os.path.exists(p):
            os.utime(p, (now, now))
    return files


def _stash_evidence():
    """Checks rewrite evidence/<id>.json on every run; runs against a deliberately broken /repo must not
    leave their evidence behind (committed evidence has to come from the unchanged tree)."""
    import glob, tempfile
    d = tempfile.mkdtemp(prefix="evidence-stash-")
    for f in glob.glob(os.path.join(ROOT, "evidence", "C*.json")):
        shutil.copy(f, d)
    return d


def _restore_evidence(d):
    import glob
    for f in glob.glob(os.path.join(d, "C*.json")):
        shutil.copy(f, os.path.join(ROOT, "evidence"))
    shutil.rmtree(d, ignore_errors=True)
ENV = dict(os.environ, CARGO_NET_OFFLINE="true")


def sh(cmd, cwd, timeout=3600):
    r = subprocess.run(cmd, cwd=cwd, env=ENV, capture_output=True, text=True, timeout=timeout)
    return r.returncode, r.stdout + r.stderr


def confirm(wt, k, prop):
    src = os.path.join(wt, "seeded_out", str(k))
    patch = os.path.join(src, "patch.diff")
    readme = open(os.path.join(src, "README.md")).read()
    # the first test path the README names that is not an existing file of the repository (READMEs also
    # mention the crate's own tests)
    cands = [c for c in re.findall(r"((?:static-metric/)?tests/[A-Za-z0-9_]+\.rs)", readme) if not os.path.exists(os.path.join(wt, c))]
    if not cands:
        print("cannot find demo placement in README"); return 2
    demo_rel = cands[0]
    # a demo of the static-metric macros has to live in that crate: prefer the spelled-out path when both appear
    for c in cands:
        if c.startswith("static-metric/") and os.path.basename(c) == os.path.basename(demo_rel):
            demo_rel = c
            break
    pkg = ["-p", "prometheus-static-metric"] if demo_rel.startswith("static-metric/") else []
    test_name = os.path.basename(demo_rel)[:-3]
    release = ["--release"] if "--release" in readme else []
    # extra cargo flags for the demonstration only (e.g. a defect of the plain data model: --no-default-features)
    release += os.environ.get("VERIF_DEMO_FLAGS", "").split()
    log = {}
    rc, out = sh(["git", "status", "--porcelain", "--untracked-files=no"], wt)
    if out.strip():
        print("worktree not clean:", out); return 2
    rc, out = sh(["git", "apply", "--check", patch], wt)
    if rc != 0:
        print("patch does not apply:", out); return 2
    demo_abs = os.path.join(wt, demo_rel)
    os.makedirs(os.path.dirname(demo_abs), exist_ok=True)
    try:
        sh(["git", "apply", patch], wt)
        changed = _touch_changed(wt)
        rc, out = sh(["cargo", "test", "--workspace", "--offline", "--no-fail-fast"], wt)
        failed = re.findall(r"^test (\S+) \.\.\. FAILED", out, re.M)
        log["suite_with_change"] = "pass" if rc == 0 else "FAIL: %s" % failed
        if rc != 0 and failed == ["registry::tests::test_default_registry"]:
            # known flaky test of the baseline itself (compares gather lengths on the shared default registry): retry once
            rc, out = sh(["cargo", "test", "--workspace", "--offline", "--no-fail-fast"], wt)
            log["suite_with_change"] = "pass (after one retry of flaky registry::tests::test_default_registry)" if rc == 0 else "FAIL"
        shutil.copy(os.path.join(src, "demo.rs"), demo_abs)
        rc_with, out_with = sh(["cargo", "test", "--offline"] + release + pkg + ["--test", test_name], wt)
        log["demo_with_change"] = "fails" if rc_with != 0 else "PASSES"
        sh(["git", "apply", "-R", patch], wt)
        _touch_changed(wt, changed)
        rc_wo, out_wo = sh(["cargo", "test", "--offline"] + release + pkg + ["--test", test_name], wt)
        log["demo_without_change"] = "passes" if rc_wo == 0 else "FAILS"
    finally:
        sh(["git", "checkout", "--", "."], wt)
        if os.path.exists(demo_abs):
            os.remove(demo_abs)
    ok = log.get("suite_with_change", "").startswith("pass") and log.get("demo_with_change") == "fails" and log.get("demo_without_change") == "passes"
    print(prop, k, log, "CONFIRMED" if ok else "REJECTED")
    if not ok:
        return 1
    os.makedirs(SEEDED, exist_ok=True)
    n = 1
    while os.path.exists(os.path.join(SEEDED, "%s-%d" % (prop, n))):
        n += 1
    dst = os.path.join(SEEDED, "%s-%d" % (prop, n))
    os.makedirs(dst)
    for f in ("patch.diff", "demo.rs", "README.md"):
        shutil.copy(os.path.join(src, f), os.path.join(dst, f))
    first = next((l.strip("# ").strip() for l in readme.splitlines() if l.strip() and not l.startswith("# Seeded")), "")
    needs = ""
    mm = re.search(r"(?is)needs?[^\n]*manifest[^\n]*\n+(.{0,600})", readme)
    if mm:
        needs = " ".join(mm.group(1).split())[:500]
    meta = {"id": "%s-%d" % (prop, n), "property": prop, "origin": "independent sub-agent given only the property text and a scratch worktree", "summary": first[:300], "needs_to_manifest": needs,
            "demo_placement": demo_rel, "demo_command": "cargo test --offline %s--test %s" % (" ".join(release + pkg) + (" " if release or pkg else ""), test_name),
            "confirmed_in_scratch_worktree": log, "repo_head_at_seeding": sh(["git", "rev-parse", "HEAD"], wt)[1].strip(), "checks": {}}
    json.dump(meta, open(os.path.join(dst, "meta.json"), "w"), indent=1)
    return 0


def check(ids, thorough=False):
    stash = _stash_evidence()
    try:
        _check(ids, thorough)
    finally:
        _restore_evidence(stash)


def _check(ids, thorough=False):
    for d in sorted(os.listdir(SEEDED)):
        if ids and d not in ids:
            continue
        mp = os.path.join(SEEDED, d, "meta.json")
        if not os.path.exists(mp):
            continue
        meta = json.load(open(mp))
        meta["checks"] = {}
        st = subprocess.run(["git", "-C", REPO, "status", "--porcelain", "--untracked-files=no"], capture_output=True, text=True).stdout
        if st.strip():
            sys.exit("/repo not clean")
        rc = subprocess.run(["git", "-C", REPO, "apply", os.path.join(SEEDED, d, "patch.diff")]).returncode
        changed = _touch_changed(REPO)
        if rc != 0:
            meta["checks"]["apply"] = "patch no longer applies to /repo HEAD"
            json.dump(meta, open(mp, "w"), indent=1)
            print(d, "patch does not apply"); continue
        try:
            plan = [(meta["property"], "quick")] + ([(meta["property"], "thorough")] if thorough else []) + [(p2, "quick") for p2 in meta.get("also_try", [])]
            for prop, tier in plan:
                t0 = time.time()
                r = subprocess.run([os.path.join(ROOT, "run.sh"), prop, tier], capture_output=True, text=True)
                sig = next((l.strip()[2:] for l in r.stdout.splitlines() if l.startswith("  # ")), "")
                verdict = {0: "MISSED", 1: "caught"}.get(r.returncode, "inconclusive rc=%d" % r.returncode)
                meta["checks"]["./run.sh %s %s" % (prop, tier)] = {"verdict": verdict, "first_signature": sig[:300], "secs": round(time.time() - t0, 1)}
                print("%-8s %-8s %-10s %s" % (d, tier, verdict, sig[:110]), flush=True)
                if r.returncode == 1:
                    break
        finally:
            subprocess.run(["git", "-C", REPO, "checkout", "--", "."], check=True)
            _touch_changed(REPO, changed)
            subprocess.run(["git", "-C", REPO, "clean", "-fdq", "tests", "static-metric/tests"], check=False)
        json.dump(meta, open(mp, "w"), indent=1)


def table():
    print("| id | property | what it changes | needs | caught by |")
    print("|---|---|---|---|---|")
    for d in sorted(os.listdir(SEEDED), key=lambda x: (x.split("-")[0], int(x.split("-")[1]))):
        mp = os.path.join(SEEDED, d, "meta.json")
        if not os.path.exists(mp):
            continue
        m = json.load(open(mp))
        caught = "; ".join("%s: %s (%s)" % (k.replace("./run.sh ", ""), v["verdict"], v["first_signature"].split(":")[0]) for k, v in m["checks"].items() if isinstance(v, dict))
        print("| %s | %s | %s | %s | %s |" % (d, m["property"], m["summary"].replace("|", "/")[:160], m["needs_to_manifest"].replace("|", "/")[:200], caught))


if __name__ == "__main__":
    a = sys.argv[1:]
    if a and a[0] == "confirm":
        sys.exit(confirm(a[1], int(a[2]), a[3]))
    elif a and a[0] == "check":
        th = "--thorough" in a
        check([x for x in a[1:] if x != "--thorough"], th)
    elif a and a[0] == "table":
        table()
    else:
        sys.exit(__doc__)
