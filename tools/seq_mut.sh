#!/bin/bash
# usage: tools/seq_mut.sh <prop> <cases> [lines]
cd /verif/harness && CARGO_TARGET_DIR=/verif/target/plain cargo build --release -p seq --offline 2>&1 | grep -E "^error" -A8
/verif/target/plain/release/seq $1 --seed 1 --cases $2 --out /tmp/mut.json 2>&1 | cut -c1-330 | head -${3:-4}
exit ${PIPESTATUS[0]}
