#!/bin/bash
# usage: tools/conc_mut.sh <prop> <cases>   (build hooked conc from current /repo tree and run E2)
cd /verif/harness && RUSTFLAGS="--cfg prometheus_verif" CARGO_TARGET_DIR=/verif/target/hook cargo build --release -p conc --offline 2>&1 | grep -E "^error" -A8
/verif/target/hook/release/conc $1 --engine e2 --seed 1 --cases $2 --out /tmp/mut.json 2>&1 | head -${3:-6}
exit ${PIPESTATUS[0]}
