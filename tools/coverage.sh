#!/bin/bash
# Reach report (not a check): which lines of /repo/src the monitored workloads execute.
# Builds the harness with -Cinstrument-coverage (nightly, for llvm-tools), runs quick-sized
# workloads of every property, merges the profiles and writes evidence/coverage_summary.json
# plus evidence/coverage_uncovered.txt (uncovered lines of the anchored source files).
set -e
cd "$(dirname "$0")/.."
ROOT=$PWD
BIN=$(rustc +nightly --print sysroot)/lib/rustlib/x86_64-unknown-linux-gnu/bin
COV=$ROOT/target/cov
PROF=$COV/prof
rm -rf $PROF; mkdir -p $PROF
export CARGO_NET_OFFLINE=true
cd harness
python3 ../tools/gen_static.py 1 60 staticgen/src/generated
RUSTFLAGS="-Cinstrument-coverage" CARGO_TARGET_DIR=$COV/plain cargo +nightly build --release --offline -p seq -p staticgen 2>&1 | tail -1
RUSTFLAGS="-Cinstrument-coverage --cfg prometheus_verif" CARGO_TARGET_DIR=$COV/hook cargo +nightly build --release --offline -p conc 2>&1 | tail -1
cd ..
objs=""
run() { # name, binary, args...
  local name=$1; shift
  LLVM_PROFILE_FILE="$PROF/$name-%p.profraw" "$@" >/dev/null 2>&1 || true
}
for p in C04 C05 C06 C07 C08 C09 C12 C13 C14 C15 C17 C18 C20; do
  run seq-$p $COV/plain/release/seq $p --seed 1 --cases 300 --out $PROF/$p.json
done
run static $COV/plain/release/staticgen --seed 1 --out $PROF/c19.json
for p in C01 C02 C03 C10 C11; do
  run e2-$p $COV/hook/release/conc $p --engine e2 --seed 1 --cases 600 --out $PROF/$p.json
  run e1-$p $COV/hook/release/conc $p --engine e1 --seed 1 --secs 1 --out $PROF/$p-e1.json
done
$BIN/llvm-profdata merge -sparse $PROF/*.profraw -o $COV/all.profdata
$BIN/llvm-cov export --format=text --summary-only -instr-profile=$COV/all.profdata \
   -object $COV/plain/release/seq -object $COV/plain/release/staticgen -object $COV/hook/release/conc \
   --ignore-filename-regex='(\.cargo|rustc|/verif/|proto_model\.rs|verif_sync\.rs)' > $COV/summary.json
$BIN/llvm-cov show --format=text -instr-profile=$COV/all.profdata \
   -object $COV/plain/release/seq -object $COV/plain/release/staticgen -object $COV/hook/release/conc \
   --ignore-filename-regex='(\.cargo|rustc|/verif/|proto_model\.rs|verif_sync\.rs)' --show-line-counts-or-regions=false > $COV/show.txt 2>/dev/null || true
python3 - "$COV" <<'PY'
import json, sys, re, os
cov = sys.argv[1]
d = json.load(open(os.path.join(cov, "summary.json")))
files = {}
for f in d["data"][0]["files"]:
    name = f["filename"]
    if not name.startswith("/repo/"):
        continue
    s = f["summary"]
    files[name[len("/repo/"):]] = {"lines": s["lines"]["count"], "lines_covered": s["lines"]["covered"], "functions": s["functions"]["count"], "functions_covered": s["functions"]["covered"], "regions_pct": round(s["regions"]["percent"], 1)}
out = {"note": "line/function coverage of /repo sources (library code only) reached by quick-sized runs of all monitored workloads; test modules inside the source files count as uncovered", "files": files}
json.dump(out, open("/verif/evidence/coverage_summary.json", "w"), indent=1)
for k, v in sorted(files.items()):
    print("%-40s lines %4d/%4d  fns %3d/%3d" % (k, v["lines_covered"], v["lines"], v["functions_covered"], v["functions"]))
PY
