#!/bin/bash
# run from a vp snapshot: use the snapshot's own scripts but /verif's build output is not there -> builds its own
for p in C01 C02 C03 C04 C05 C06 C07 C08 C09 C10 C11 C12 C13 C14 C15 C16 C17 C18 C19 C20; do
  VERIF_SEED=${1:-7} ./run.sh $p thorough | grep -v "^KNOWN" | tail -3
done
