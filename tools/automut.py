#!/usr/bin/env python3
"""Systematic source mutants (self-validation at scale; not a registered check).

  automut.py gen <n-per-file> <seed>      write mutants/auto/candidates.json (line-level operator mutants
                                          of the library files the properties are anchored in)
  automut.py filter [workers]             in scratch worktrees under /tmp (removed afterwards): does the mutant
                                          compile and pass the repository's own test suite? -> mutants/auto/filtered.json
  automut.py check                        every mutant that survives the repository's tests is applied to /repo,
                                          the quick checks of the properties anchored in that file are run, /repo is
                                          restored -> mutants/auto/RESULTS.json (caught / silent, first signature)
  automut.py table                        markdown summary

A mutant that is silent is either behaviourally equivalent or a gap; the survivors are listed for review.
"""
import json, os, random, re, subprocess, sys, time, shutil, concurrent.futures as cf
ROOT = os.path.dirname(os.path.dirname(os.path.abspath(__file__)))
REPO = "/repo"
AUTO = os.path.join(ROOT, "mutants", "auto")

FILES = {
    "src/atomic64.rs": ["C01", "C11", "C02"],
    "src/value.rs": ["C01", "C11", "C05", "C07"],
    "src/counter.rs": ["C01", "C12", "C05"],
    "src/gauge.rs": ["C11", "C10"],
    "src/histogram.rs": ["C02", "C03", "C08", "C12", "C18"],
    "src/vec.rs": ["C05", "C10", "C12"],
    "src/registry.rs": ["C06", "C07", "C09", "C14"],
    "src/desc.rs": ["C15", "C09", "C06"],
    "src/metrics.rs": ["C09", "C15", "C20", "C19"],
    "src/encoder/text.rs": ["C04", "C17"],
    "src/encoder/pb.rs": ["C13", "C17"],
    "src/encoder/mod.rs": ["C17", "C13", "C04"],
    "src/macros.rs": ["C20"],
    "src/auto_flush.rs": ["C19"],
    "static-metric/src/builder.rs": ["C19"],
    "static-metric/src/auto_flush_builder.rs": ["C19"],
    "src/plain_model.rs": ["C16"],
    "src/pulling_gauge.rs": ["C16", "C09", "C14", "C07"],
}

WEIGHT = {"src/histogram.rs": 2, "src/registry.rs": 1.5, "src/vec.rs": 1.5, "src/encoder/text.rs": 1.5}

OPS = [
    (" <= ", " < "), (" < ", " <= "), (" >= ", " > "), (" > ", " >= "), (" == ", " != "), (" != ", " == "),
    (" + ", " - "), (" - ", " + "), (" += ", " -= "), (" -= ", " += "), (" && ", " || "), (" || ", " && "),
    ("true", "false"), ("false", "true"), ("if !", "if "), (".is_some()", ".is_none()"), (".is_none()", ".is_some()"),
    (".is_ok()", ".is_err()"), (".is_err()", ".is_ok()"), (".is_empty()", ".len() == 1"), (" + 1", " + 2"), (" - 1", ""), ("[0]", "[1]"),
    (".min(", ".max("), (".max(", ".min("), ("Some(", "None.or(Some("),
]
SKIP = re.compile(r"^\s*(//|///|#\[|use |pub use |mod |pub mod |impl|pub fn |fn |pub struct|struct |pub enum|enum |pub trait|trait |where|type |pub type|macro_rules|\}|\{|\)|debug_assert|assert)")


def lines_of(path):
    src = open(os.path.join(REPO, path)).read().split("\n")
    out = []
    in_test_fn = False
    for i, l in enumerate(src):
        if re.match(r"\s*#\[cfg\(test\)\]", l) or re.match(r"\s*mod tests?\b", l):
            break
        # test functions that sit between the items of a file (src/macros.rs): skipped up to their closing brace
        if re.match(r"^#\[test\]", l):
            in_test_fn = True
        if in_test_fn:
            if l == "}":
                in_test_fn = False
            continue
        out.append((i, l))
    # items behind features the harness never enables are not compiled: drop them (to the closing brace at the
    # indentation of the attribute)
    kept, skip_indent = [], None
    for i, l in out:
        if skip_indent is not None:
            if l.startswith(skip_indent + "}"):
                skip_indent = None
            continue
        m = re.match(r'^(\s*)#\[cfg\((all\()?feature = "(nightly|push|process)"', l)
        if m:
            skip_indent = m.group(1)
            continue
        kept.append((i, l))
    out = kept
    return src, out


def gen(n_per_file, seed, prefix="A"):
    rng = random.Random(seed)
    cands = []
    path0 = os.path.join(AUTO, "candidates.json")
    earlier = json.load(open(path0)) if os.path.exists(path0) and prefix != "A" else []
    taken = set((c["file"], c["line"]) for c in earlier)
    for path in FILES:
        src, body = lines_of(path)
        local = []
        for i, l in body:
            if SKIP.match(l) or "=>" in l and "if " not in l or "->" in l or "prometheus_verif" in l or "verif_" in l:
                continue
            if l.strip().startswith("//") or "///" in l:
                continue
            code = l.split("//")[0]
            for a, b in OPS:
                k = code.find(a)
                if k < 0:
                    continue
                if a in (" < ", " > ") and (re.search(r"[A-Za-z_]<", code) or "::<" in code):
                    continue
                if b == "None.or(Some(":
                    new = code[:k] + "None.or(Some(" + code[k + len(a):]
                    # needs a matching close: only on simple `Some(x)` at end of statement
                    m = re.search(r"Some\(([^()]*)\)", code[k:])
                    if not m:
                        continue
                    new = code[:k] + "None" + code[k + m.end():]
                else:
                    new = code[:k] + b + code[k + len(a):]
                local.append(dict(file=path, line=i + 1, old=l, new=new, op="%s -> %s" % (a.strip(), b.strip() or "(dropped)")))
            # statement deletion: a plain call statement
            if re.match(r"^\s*[a-z_][A-Za-z0-9_\.\*&]*(\.[a-z_]+)?\(.*\);\s*$", code) and "let " not in code and "return" not in code and "?" not in code:
                local.append(dict(file=path, line=i + 1, old=l, new=re.match(r"^\s*", l).group(0) + "// " + l.strip(), op="statement deleted"))
        rng.shuffle(local)
        seen_lines = set()
        picked = []
        deletions = 0
        for c in local:
            if c["line"] in seen_lines or (c["file"], c["line"]) in taken:
                continue
            if c["op"] == "statement deleted":
                if deletions >= n_per_file * WEIGHT.get(path, 1) // 3:
                    continue
                deletions += 1
            seen_lines.add(c["line"])
            picked.append(c)
            if len(picked) >= n_per_file * WEIGHT.get(path, 1):
                break
        cands += picked
    for k, c in enumerate(cands):
        c["id"] = "%s%03d" % (prefix, k)
    os.makedirs(AUTO, exist_ok=True)
    json.dump(earlier + cands, open(path0, "w"), indent=1)
    print("%d new candidates over %d files (%d in total)" % (len(cands), len(FILES), len(earlier) + len(cands)))


def apply_to(repo, c):
    p = os.path.join(repo, c["file"])
    src = open(p).read().split("\n")
    if src[c["line"] - 1] != c["old"]:
        raise SystemExit("mutant %s does not match %s:%d" % (c["id"], c["file"], c["line"]))
    src[c["line"] - 1] = c["new"]
    open(p, "w").write("\n".join(src))
    now = time.time() + 1
    os.utime(p, (now, now))


def restore(repo, c):
    subprocess.run(["git", "-C", repo, "checkout", "--", c["file"]], check=True)
    p = os.path.join(repo, c["file"])
    now = time.time() + 1
    os.utime(p, (now, now))


def sh(cmd, cwd, timeout=420):
    """Run in its own process group so that a test binary left spinning by a mutant can be killed with it."""
    import signal
    p = subprocess.Popen(cmd, cwd=cwd, stdout=subprocess.PIPE, stderr=subprocess.STDOUT, text=True, start_new_session=True)
    try:
        out, _ = p.communicate(timeout=timeout)
        return p.returncode, out
    except subprocess.TimeoutExpired:
        try:
            os.killpg(p.pid, signal.SIGKILL)
        except ProcessLookupError:
            pass
        p.wait()
        return 124, "timeout"


def filter_one(wt, c):
    apply_to(wt, c)
    try:
        cmd = ["cargo", "test", "--workspace", "--offline", "-j", "4", "--no-fail-fast"]
        rc, out = sh(cmd, wt)
        if "error: could not compile" in out or re.search(r"^error(\[E\d+\])?:", out, re.M) and "test result" not in out:
            return "does-not-compile"
        failed = sorted(set(re.findall(r"^test (\S+) \.\.\. FAILED", out, re.M)))
        if rc == 124:
            return "killed-by-tests (hang)"
        if rc != 0 and failed == ["registry::tests::test_default_registry"]:
            rc, out = sh(cmd, wt)
            failed = sorted(set(re.findall(r"^test (\S+) \.\.\. FAILED", out, re.M)))
        if rc != 0:
            return "killed-by-tests: %s" % ",".join(failed[:3]) if failed else "killed-by-tests (rc %d)" % rc
        # the two other build configurations must compile as well
        rc, out = sh(["cargo", "build", "--offline", "-j", "4", "--no-default-features"], wt)
        if rc != 0:
            return "does-not-compile (no-default-features)"
        return "survives-tests"
    finally:
        restore(wt, c)


def do_filter(workers):
    cands = json.load(open(os.path.join(AUTO, "candidates.json")))
    path = os.path.join(AUTO, "filtered.json")
    done = {d["id"]: d for d in json.load(open(path))} if os.path.exists(path) else {}
    todo = [c for c in cands if c["id"] not in done]
    wts = []
    for i in range(workers):
        wt = "/tmp/am_%d" % i
        if not os.path.isdir(wt):
            subprocess.check_call(["git", "-C", REPO, "worktree", "add", "--detach", wt, "HEAD"], stdout=subprocess.DEVNULL, stderr=subprocess.DEVNULL)
        wts.append(wt)
    import queue
    q = queue.Queue()
    for w in wts:
        q.put(w)

    def work(c):
        wt = q.get()
        try:
            c = dict(c)
            c["tests"] = filter_one(wt, c)
            return c
        finally:
            q.put(wt)
    try:
        with cf.ThreadPoolExecutor(max_workers=workers) as ex:
            for c in ex.map(work, todo):
                done[c["id"]] = c
                print(c["id"], c["file"], c["line"], c["op"], "=>", c["tests"], flush=True)
                json.dump(list(done.values()), open(path, "w"), indent=1)
    finally:
        for wt in wts:
            subprocess.run(["git", "-C", REPO, "worktree", "remove", "--force", wt])
            shutil.rmtree(wt, ignore_errors=True)


def do_check():
    import glob, tempfile
    filt = json.load(open(os.path.join(AUTO, "filtered.json")))
    path = os.path.join(AUTO, "RESULTS.json")
    done = {d["id"]: d for d in json.load(open(path))} if os.path.exists(path) else {}
    st = subprocess.run(["git", "-C", REPO, "status", "--porcelain", "--untracked-files=no"], capture_output=True, text=True).stdout
    if st.strip():
        sys.exit("/repo working tree is not clean:\n" + st)
    stash = tempfile.mkdtemp(prefix="evidence-stash-")
    for f in glob.glob(os.path.join(ROOT, "evidence", "C*.json")):
        shutil.copy(f, stash)
    try:
        for c in filt:
            if c["tests"] != "survives-tests" or c["id"] in done:
                continue
            apply_to(REPO, c)
            verdicts = {}
            try:
                for prop in FILES[c["file"]]:
                    r = subprocess.run([os.path.join(ROOT, "run.sh"), prop, "quick"], capture_output=True, text=True)
                    sig = next((l.strip()[2:] for l in r.stdout.splitlines() if l.startswith("  # ")), "")
                    verdicts[prop] = dict(exit=r.returncode, first_signature=sig[:200])
                    if r.returncode == 1:
                        break
            finally:
                restore(REPO, c)
            c = dict(c)
            c["checks"] = verdicts
            c["verdict"] = "caught" if any(v["exit"] == 1 for v in verdicts.values()) else ("inconclusive" if any(v["exit"] not in (0, 1) for v in verdicts.values()) else "silent")
            done[c["id"]] = c
            print(c["id"], c["file"], c["line"], c["op"], "=>", c["verdict"], next((p + ": " + v["first_signature"][:80] for p, v in verdicts.items() if v["exit"] == 1), ""), flush=True)
            json.dump(list(done.values()), open(path, "w"), indent=1)
    finally:
        for f in glob.glob(os.path.join(stash, "C*.json")):
            shutil.copy(f, os.path.join(ROOT, "evidence"))
        shutil.rmtree(stash, ignore_errors=True)


def table():
    filt = json.load(open(os.path.join(AUTO, "filtered.json")))
    res = {d["id"]: d for d in json.load(open(os.path.join(AUTO, "RESULTS.json")))} if os.path.exists(os.path.join(AUTO, "RESULTS.json")) else {}
    by = {}
    for c in filt:
        b = by.setdefault(c["file"], dict(n=0, nocompile=0, tests=0, survive=0, caught=0, silent=0, other=0))
        b["n"] += 1
        if c["tests"].startswith("does-not-compile"):
            b["nocompile"] += 1
        elif c["tests"].startswith("killed"):
            b["tests"] += 1
        else:
            b["survive"] += 1
            v = res.get(c["id"], {}).get("verdict")
            if v == "caught":
                b["caught"] += 1
            elif v == "silent":
                b["silent"] += 1
            else:
                b["other"] += 1
    print("| file | mutants | do not compile | killed by the repository's tests | survive the tests | of these caught by the checks | silent |")
    print("|---|---|---|---|---|---|---|")
    tot = dict(n=0, nocompile=0, tests=0, survive=0, caught=0, silent=0, other=0)
    for f, b in sorted(by.items()):
        print("| `%s` | %d | %d | %d | %d | %d | %d |" % (f, b["n"], b["nocompile"], b["tests"], b["survive"], b["caught"], b["silent"]))
        for k in tot:
            tot[k] += b[k]
    print("| total | %d | %d | %d | %d | %d | %d |" % (tot["n"], tot["nocompile"], tot["tests"], tot["survive"], tot["caught"], tot["silent"]))
    print()
    for c in filt:
        r = res.get(c["id"])
        if r and r["verdict"] != "caught":
            print("- %s `%s:%d` %s: `%s` -> `%s` (%s)" % (c["id"], c["file"], c["line"], c["op"], c["old"].strip()[:90], c["new"].strip()[:90], r["verdict"]))


if __name__ == "__main__":
    a = sys.argv[1:]
    if not a:
        sys.exit(__doc__)
    if a[0] == "gen":
        gen(int(a[1]), int(a[2]), a[3] if len(a) > 3 else "A")
    elif a[0] == "filter":
        do_filter(int(a[1]) if len(a) > 1 else 4)
    elif a[0] == "check":
        do_check()
    elif a[0] == "table":
        table()
