#!/usr/bin/env python3
"""Behaviour-preserving changes (false-alarm validation; not a registered check).

  equiv.py import <worktree> <k> <area> <props,comma>   copy refactor_out/<k> to /verif/equivalent/<area>-<n>/
  equiv.py check [<id> ...]        apply each kept patch to /repo, run the quick checks of its properties
                                   (all of them must stay silent), revert; record in meta.json
"""
import json, os, subprocess, sys, shutil, time
ROOT = os.path.dirname(os.path.dirname(os.path.abspath(__file__)))
EQ = os.path.join(ROOT, "equivalent")
REPO = "/repo"


def _touch_changed(repo, files=None):
    """cargo decides by mtime: make sure files changed by an apply / revert are seen as newer than the last build."""
    import time
    if files is None:
        out = subprocess.run(["git", "-C", repo, "diff", "--name-only"], capture_output=True, text=True).stdout
        files = [f for f in out.splitlines() if f.strip()]
    now = time.time() + 1
    for f in files:
        p = os.path.join(repo, f)
        if os.path.exists(p):
            os.utime(p, (now, now))
    return files


def _stash_evidence():
    """Checks rewrite evidence/<id>.json on every run; runs against a deliberately broken /repo must not
    leave their evidence behind (committed evidence has to come from the unchanged tree)."""
    import glob, tempfile
    d = tempfile.mkdtemp(prefix="evidence-stash-")
    for f in glob.glob(os.path.join(ROOT, "evidence", "C*.json")):
        shutil.copy(f, d)
    return d


def _restore_evidence(d):
    import glob
    for f in glob.glob(os.path.join(d, "C*.json")):
        shutil.copy(f, os.path.join(ROOT, "evidence"))
    shutil.rmtree(d, ignore_errors=True)


def imp(wt, k, area, props):
    src = os.path.join(wt, "refactor_out", str(k))
    os.makedirs(EQ, exist_ok=True)
    n = 1
    while os.path.exists(os.path.join(EQ, "%s-%d" % (area, n))):
        n += 1
    dst = os.path.join(EQ, "%s-%d" % (area, n))
    os.makedirs(dst)
    for f in ("patch.diff", "README.md"):
        shutil.copy(os.path.join(src, f), os.path.join(dst, f))
    json.dump({"id": "%s-%d" % (area, n), "properties": props.split(","), "origin": "independent sub-agent asked for behaviour-preserving refactorings of the code these properties are anchored in", "checks": {}}, open(os.path.join(dst, "meta.json"), "w"), indent=1)
    print("imported", dst)


def check(ids):
    stash = _stash_evidence()
    try:
        _check(ids)
    finally:
        _restore_evidence(stash)


def _check(ids):
    for d in sorted(os.listdir(EQ)):
        if ids and d not in ids:
            continue
        mp = os.path.join(EQ, d, "meta.json")
        meta = json.load(open(mp))
        meta["checks"] = {}
        st = subprocess.run(["git", "-C", REPO, "status", "--porcelain", "--untracked-files=no"], capture_output=True, text=True).stdout
        if st.strip():
            sys.exit("/repo not clean")
        applied = subprocess.run(["git", "-C", REPO, "apply", os.path.join(EQ, d, "patch.diff")]).returncode
        changed = _touch_changed(REPO)
        if applied != 0:
            meta["checks"]["apply"] = "patch does not apply"
            json.dump(meta, open(mp, "w"), indent=1)
            print(d, "patch does not apply")
            continue
        try:
            for prop in meta["properties"]:
                t0 = time.time()
                r = subprocess.run([os.path.join(ROOT, "run.sh"), prop, "quick"], capture_output=True, text=True)
                sig = next((l.strip()[2:] for l in r.stdout.splitlines() if l.startswith("  # ")), "")
                inc = next((l for l in r.stdout.splitlines() if l.startswith("INCONCLUSIVE")), "")
                verdict = {0: "silent", 1: "ALARM", 2: "inconclusive"}.get(r.returncode, "rc=%d" % r.returncode)
                meta["checks"]["./run.sh %s quick" % prop] = {"verdict": verdict, "detail": (sig or inc)[:300], "secs": round(time.time() - t0, 1)}
                print("%-8s %-4s %-12s %s" % (d, prop, verdict, (sig or inc)[:120]), flush=True)
        finally:
            subprocess.run(["git", "-C", REPO, "checkout", "--", "."], check=True)
            _touch_changed(REPO, changed)
        json.dump(meta, open(mp, "w"), indent=1)


if __name__ == "__main__":
    a = sys.argv[1:]
    if a and a[0] == "import":
        imp(a[1], int(a[2]), a[3], a[4])
    elif a and a[0] == "check":
        check(a[1:])
    else:
        sys.exit(__doc__)
