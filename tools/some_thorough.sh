#!/bin/bash
# ./tools/some_thorough.sh <seed> <property>...   thorough commands of the listed properties, one after the other
seed=$1; shift
for p in "$@"; do
  VERIF_SEED=$seed ./run.sh $p thorough | grep -v "^KNOWN" | tail -3
done
