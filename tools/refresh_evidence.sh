#!/bin/bash
# Re-run every check on the (unchanged) /repo tree so that the evidence files to be committed come from it,
# then validate them against the schema. usage: tools/refresh_evidence.sh [quick|thorough] [seed]
cd "$(dirname "$0")/.."
tier=${1:-quick}; seed=${2:-1}
if [ -n "$(git -C /repo status --porcelain --untracked-files=no)" ]; then echo "/repo working tree is not clean"; exit 1; fi
rc=0
for p in C01 C02 C03 C04 C05 C06 C07 C08 C09 C10 C11 C12 C13 C14 C15 C16 C17 C18 C19 C20; do
  VERIF_SEED=$seed ./run.sh $p $tier | grep -v "^KNOWN" | tail -1 || rc=1
done
python3-vt - <<'PY'
import json, jsonschema, glob, sys
sch = json.load(open('/root/.vp/EVIDENCE.schema.json'))
bad = 0
for f in sorted(glob.glob('/verif/evidence/C*.json')):
    d = json.load(open(f))
    try:
        jsonschema.validate(d, sch)
    except Exception as e:
        print("INVALID", f, str(e)[:200]); bad += 1
    if d.get("verdict") != "held":
        print("NOT HELD", f, d.get("verdict")); bad += 1
print("evidence files valid and held" if not bad else "%d problems" % bad)
sys.exit(1 if bad else 0)
PY
