#!/usr/bin/env python3
"""Orchestrator of the /verif checks.

  run_check.py setup
  run_check.py <Cxx> quick|thorough
  run_check.py replay <path>

Builds the harness configurations it needs from /repo's current working tree,
runs the engine processes of the property (sharded over VERIF_JOBS cores),
merges their result parts into evidence/<id>.json, filters violations against
known_findings.json and decides the exit code:
  0 held on everything explored (KNOWN-FINDING lines for listed findings)
  1 VIOLATION property=<id> replay=<path>   (one line per distinct signature)
  2 INCONCLUSIVE (harness could not be built / a run did not finish / no coverage)
"""
import json, os, subprocess, sys, time, shutil, hashlib, concurrent.futures as cf

ROOT = os.path.dirname(os.path.dirname(os.path.abspath(__file__)))
HARNESS = os.path.join(ROOT, "harness")
TARGET = os.path.join(ROOT, "target")
EVID = os.path.join(ROOT, "evidence")
PARTS = os.path.join(EVID, "parts")
REPLAYS = os.path.join(EVID, "replays")
LOGS = os.path.join(EVID, "logs")
REPO = "/repo"

ENV = dict(os.environ)
ENV["CARGO_NET_OFFLINE"] = "true"
ENV.pop("RUSTFLAGS", None)

JOBS = int(os.environ.get("VERIF_JOBS") or os.cpu_count() or 4)
SEED = int(os.environ.get("VERIF_SEED") or 1)


class Inconclusive(Exception):
    pass


# --------------------------------------------------------------------------
# builds
# --------------------------------------------------------------------------
def cargo_env(config):
    e = dict(ENV)
    e["CARGO_TARGET_DIR"] = os.path.join(TARGET, config)
    if config == "hook":
        e["RUSTFLAGS"] = "--cfg prometheus_verif"
    return e


_built = set()


def build(config, package, extra=()):
    key = (config, package, tuple(extra))
    if key in _built:
        return
    os.makedirs(LOGS, exist_ok=True)
    cmd = ["cargo", "build", "--release", "--offline", "-p", package] + list(extra)
    if config == "miri":
        return  # built on first run
    r = subprocess.run(cmd, cwd=HARNESS, env=cargo_env(config), capture_output=True, text=True)
    if r.returncode != 0:
        log = os.path.join(LOGS, "build-%s-%s.log" % (config, package))
        open(log, "w").write(r.stdout + r.stderr)
        raise Inconclusive("harness package %s (%s) does not build against /repo's current tree, see %s" % (package, config, log))
    _built.add(key)


def binpath(config, name):
    return os.path.join(TARGET, config, "release", name)


# --------------------------------------------------------------------------
# process running
# --------------------------------------------------------------------------
class Proc:
    """One engine process: command, where its part lands, how to interpret its exit."""

    def __init__(self, name, cmd, part=None, env=None, cwd=None, timeout=1800, kind="part", stdout_part=False):
        self.name, self.cmd, self.part, self.env, self.cwd = name, cmd, part, env or ENV, cwd or ROOT
        self.timeout, self.kind, self.stdout_part = timeout, kind, stdout_part


def run_proc(p):
    t0 = time.time()
    log = os.path.join(LOGS, p.name + ".log")
    try:
        r = subprocess.run(p.cmd, cwd=p.cwd, env=p.env, capture_output=True, text=True, timeout=p.timeout, errors="replace")
        out, err, rc = r.stdout, r.stderr, r.returncode
    except subprocess.TimeoutExpired as e:
        so = e.stdout.decode("utf8", "replace") if isinstance(e.stdout, bytes) else (e.stdout or "")
        se = e.stderr.decode("utf8", "replace") if isinstance(e.stderr, bytes) else (e.stderr or "")
        open(log, "w").write(so + "\n--- stderr ---\n" + se)
        return dict(proc=p, rc=None, part=None, wall=time.time() - t0, error="watchdog expired after %ds" % p.timeout, log=log, stderr=se)
    with open(log, "w") as f:
        f.write(out[-2_000_000:] + "\n--- stderr ---\n" + err[-2_000_000:])
    part = None
    try:
        if p.stdout_part:
            # split on \n only: str.splitlines() also splits on U+0085 and friends, which sample strings may contain
            for line in reversed(out.split("\n")):
                if line.startswith("{") and '"property"' in line:
                    part = json.loads(line)
                    break
        elif p.part and os.path.exists(p.part):
            part = json.load(open(p.part))
    except Exception as ex:  # noqa
        part = None
    return dict(proc=p, rc=rc, part=part, wall=time.time() - t0, error=None, log=log, stderr=err)


def run_all(procs, jobs=None):
    res = []
    with cf.ThreadPoolExecutor(max_workers=jobs or JOBS) as ex:
        for r in ex.map(run_proc, procs):
            res.append(r)
    return res


# --------------------------------------------------------------------------
# stage builders
# --------------------------------------------------------------------------
def part_path(prop, tag):
    return os.path.join(PARTS, "%s.%s.json" % (prop, tag))


def conc_e2(prop, tier, total_cases):
    build("hook", "conc")
    shards = min(JOBS, max(1, total_cases // 200))
    per = (total_cases + shards - 1) // shards
    procs = []
    for i in range(shards):
        tag = "e2-%d" % i
        cmd = [binpath("hook", "conc"), prop, "--engine", "e2", "--seed", str(SEED), "--first", str(i * per), "--cases", str(per), "--out", part_path(prop, tag)]
        if tier == "thorough":
            cmd.append("--thorough")
        procs.append(Proc("%s-%s" % (prop, tag), cmd, part_path(prop, tag)))
    return procs


def conc_e1(prop, tier, secs, nproc=2):
    build("hook", "conc")
    procs = []
    for i in range(nproc):
        tag = "e1-%d" % i
        cmd = [binpath("hook", "conc"), prop, "--engine", "e1", "--seed", str(SEED * 1000 + i), "--first", str(i * 1_000_000), "--secs", str(secs), "--out", part_path(prop, tag)]
        if tier == "thorough":
            cmd.append("--thorough")
        procs.append(Proc("%s-%s" % (prop, tag), cmd, part_path(prop, tag), timeout=secs * 20 + 600))
    return procs


MIRIFLAGS = "-Zmiri-permissive-provenance"


def miri_env(miri_seed):
    e = cargo_env("miri")
    e["MIRIFLAGS"] = "%s -Zmiri-seed=%d" % (MIRIFLAGS, miri_seed)
    return e


def conc_miri(prop, tier, nproc, cases_each):
    # first invocation builds the interpreter-side artefacts; do it once, serially
    warm = subprocess.run(["cargo", "+nightly", "miri", "run", "-p", "conc", "--offline", "--", prop, "--engine", "native", "--cases", "0"], cwd=HARNESS, env=miri_env(0), capture_output=True, text=True)
    if warm.returncode != 0:
        os.makedirs(LOGS, exist_ok=True)
        log = os.path.join(LOGS, "build-miri-conc.log")
        open(log, "w").write(warm.stdout + warm.stderr)
        raise Inconclusive("conc does not build/run under Miri against /repo's current tree, see %s" % log)
    procs = []
    for i in range(nproc):
        ms = SEED * 1000 + i
        cmd = ["cargo", "+nightly", "miri", "run", "-p", "conc", "--offline", "--", prop, "--engine", "native", "--seed", str(ms), "--first", str(i * cases_each), "--cases", str(cases_each)]
        procs.append(Proc("%s-miri-%d" % (prop, i), cmd, env=miri_env(ms), cwd=HARNESS, kind="miri", stdout_part=True, timeout=3600))
    return procs


# sequential monitors that are cheap enough to also run under Miri (thorough tier): cases per process
SEQ_MIRI = {"C04": 1, "C05": 4, "C06": 2, "C07": 4, "C08": 16, "C12": 16, "C13": 4, "C18": 16}


def seq_miri(prop, nproc, cases_each):
    warm = subprocess.run(["cargo", "+nightly", "miri", "run", "-p", "seq", "--offline", "--", prop, "--cases", "0"], cwd=HARNESS, env=miri_env(0), capture_output=True, text=True)
    if warm.returncode != 0:
        os.makedirs(LOGS, exist_ok=True)
        log = os.path.join(LOGS, "build-miri-seq.log")
        open(log, "w").write(warm.stdout + warm.stderr)
        raise Inconclusive("seq does not build/run under Miri against /repo's current tree, see %s" % log)
    procs = []
    for i in range(nproc):
        ms = SEED * 1000 + i
        cmd = ["cargo", "+nightly", "miri", "run", "-p", "seq", "--offline", "--", prop, "--seed", str(SEED), "--first", str(900_000_000 + i * cases_each), "--cases", str(cases_each)]
        procs.append(Proc("%s-miriseq-%d" % (prop, i), cmd, env=miri_env(ms), cwd=HARNESS, kind="miri", stdout_part=True, timeout=7200))
    return procs


def seq_shards(prop, tier, total_cases, binary="seq", config="plain", shards=None, extra=()):
    build(config, binary)
    shards = shards or min(JOBS, max(1, total_cases // 50))
    per = (total_cases + shards - 1) // shards
    procs = []
    for i in range(shards):
        tag = "%s-%d" % (binary, i)
        cmd = [binpath(config, binary), prop, "--seed", str(SEED), "--first", str(i * per), "--cases", str(per), "--out", part_path(prop, tag)] + list(extra)
        if tier == "thorough":
            cmd.append("--thorough")
        procs.append(Proc("%s-%s" % (prop, tag), cmd, part_path(prop, tag)))
    return procs


def run_c19(tier):
    """Generate declarations, compile them against /repo, run the drivers natively and the
    auto-flush ones under valgrind memcheck. Batches are sequential (one crate directory)."""
    q = tier == "quick"
    batches = [(SEED * 100 + b, 60 if q else 300) for b in range(1 if q else 4)]
    gen_dir = os.path.join(HARNESS, "staticgen", "src", "generated")
    results = []
    for b, (gseed, count) in enumerate(batches):
        r = subprocess.run([sys.executable, os.path.join(ROOT, "tools", "gen_static.py"), str(gseed), str(count), gen_dir], capture_output=True, text=True)
        if r.returncode != 0:
            raise Inconclusive("generator failed: %s" % r.stderr[-300:])
        _built.discard(("plain", "staticgen", ()))
        try:
            build("plain", "staticgen")
        except Inconclusive as e:
            # the generated programs are valid by construction: a compile error means an accessor the
            # declaration promises does not exist (or the harness broke); report what rustc said
            log = os.path.join(LOGS, "build-plain-staticgen.log")
            txt = open(log).read() if os.path.exists(log) else ""
            first = next((l for l in txt.splitlines() if l.startswith("error")), "")
            if "generated" in txt and first:
                p = Proc("C19-static-%d" % b, [], None)
                part = {"property": "C19", "engine": "static", "seed": gseed, "evaluations": 0, "distinct": [], "rule": "", "counters": {}, "samples": [],
                        "violations": [{"signature": "generated-program-does-not-compile:generated-program", "rule": "generated-program-does-not-compile", "explanation": "a declaration from the documented grammar does not compile: %s (log %s)" % (first, log), "replay": {"property": "C19", "engine": "static", "seed": gseed, "count": count}}], "inconclusive": None}
                results.append(dict(proc=p, rc=1, part=part, wall=0.0, error=None, log=log, stderr=""))
                continue
            raise e
        tag = "static-%d" % b
        native = Proc("C19-%s" % tag, [binpath("plain", "staticgen"), "--seed", str(gseed), "--out", part_path("C19", tag)], part_path("C19", tag))
        res = run_proc(native)
        # the generated programs are safe Rust: a fatal signal (SIGSEGV, SIGBUS, SIGILL, SIGFPE, SIGABRT) can only
        # come from the library's own unsafe code (the pointer-offset delegators of the auto-flush expansion).
        # SIGKILL (memory pressure, watchdog) stays inconclusive.
        if res["rc"] is not None and res["part"] is None and (-res["rc"] in (11, 7, 4, 8, 6) or res["rc"] in (139, 135, 132, 136, 134)):
            sig = -res["rc"] if res["rc"] < 0 else res["rc"] - 128
            res["part"] = {"property": "C19", "engine": "static", "seed": gseed, "evaluations": 0, "distinct": [], "rule": "", "counters": {}, "samples": [],
                           "violations": [{"signature": "generated-program-crashed:generated-program", "rule": "generated-program-crashed", "explanation": "the generated driver (safe Rust over the macro expansion) died with signal %d (log %s)" % (sig, res["log"]), "replay": {"property": "C19", "engine": "static", "seed": gseed, "count": count}}], "inconclusive": None}
            res["rc"] = 1
        results.append(res)
        tagv = "memcheck-%d" % b
        vg = Proc("C19-%s" % tagv, ["valgrind", "--error-exitcode=9", "-q", "--num-callers=30", binpath("plain", "staticgen"), "--seed", str(gseed), "--only-auto-flush", "--out", part_path("C19", tagv)], part_path("C19", tagv), timeout=3600)
        resv = run_proc(vg)
        if resv["rc"] == 9:
            part = resv["part"] or {"property": "C19", "engine": "static-memcheck", "seed": gseed, "evaluations": 0, "distinct": [], "rule": "", "counters": {}, "samples": [], "violations": [], "inconclusive": None}
            first = next((l for l in (resv["stderr"] or "").splitlines() if "Invalid" in l or "uninitialised" in l or "Mismatched" in l), "memcheck reported errors")
            part.setdefault("violations", []).append({"signature": "memcheck-error-in-auto-flush-accessors:generated-program", "rule": "memcheck", "explanation": "valgrind memcheck: %s (log %s)" % (first.strip(), resv["log"]), "replay": {"property": "C19", "engine": "static", "seed": gseed, "count": count, "memcheck": True}})
            resv["part"] = part
            resv["rc"] = 1
        results.append(resv)
    return results


# --------------------------------------------------------------------------
# per-property plans: tier -> list of process lists (all run in one pool)
# --------------------------------------------------------------------------
def plan(prop, tier):
    q = tier == "quick"
    if prop in ("C01", "C11", "C10"):
        return conc_e2(prop, tier, 6000 if q else 1_200_000) + conc_e1(prop, tier, 4 if q else 90, 2 if q else 4) + conc_miri(prop, tier, 8 if q else 16, 3 if q else 48)
    if prop in ("C02", "C03"):
        return conc_e2(prop, tier, 6000 if q else 1_000_000) + conc_e1(prop, tier, 5 if q else 90, 2 if q else 4) + conc_miri(prop, tier, 8 if q else 16, 2 if q else 32)
    if prop == "C16":
        build("plain", "xbuild", ("--features", "pb"))
        build("nopb", "xbuild")
        total = 4000 if q else 400_000
        shards = min(JOBS, max(1, total // 250))
        per = (total + shards - 1) // shards
        procs = []
        for i in range(shards):
            out = part_path(prop, "xbuild-%d" % i)
            cmd = [sys.executable, os.path.join(ROOT, "tools", "c16_shard.py"), binpath("plain", "xbuild"), binpath("nopb", "xbuild"), str(SEED), str(i * per), str(per), out]
            procs.append(Proc("%s-xbuild-%d" % (prop, i), cmd, out))
        return procs
    if prop in SEQ_CASES:
        qc, tc = SEQ_CASES[prop]
        procs = seq_shards(prop, tier, qc if q else tc)
        if prop in ("C06", "C07"):
            # register/unregister/gather histories issued by several real threads (harness/conc/src/wl_registry.rs)
            procs += conc_e1(prop, tier, 4 if q else 90, 2 if q else 4)
            if prop == "C06" and not q:
                # the same threaded histories under Miri (data races / UB in registry + collectors while threads register and gather)
                procs += conc_miri(prop, tier, 8, 2)
        if not q and prop in SEQ_MIRI:
            procs += seq_miri(prop, 8, SEQ_MIRI[prop])
        if prop == "C04" and not q:
            d = os.path.join(PARTS, "c04dump")
            shutil.rmtree(d, ignore_errors=True)
            os.makedirs(d, exist_ok=True)
            for p in procs:
                p.env = dict(p.env)
                p.env["VERIF_C04_DUMP_DIR"] = d
        return procs
    raise SystemExit("no plan for property %s" % prop)


# sequential monitors: (quick cases, thorough cases) in total, sharded over the cores
SEQ_CASES = {
    "C04": (8000, 400_000),
    "C05": (16000, 800_000),
    "C06": (8000, 400_000),
    "C07": (8000, 400_000),
    "C08": (32000, 2_000_000),
    "C09": (4000, 200_000),
    "C12": (32000, 2_000_000),
    "C13": (8000, 400_000),
    "C14": (4000, 200_000),
    "C15": (3200, 100_000),
    "C17": (1600, 60_000),
    "C18": (3200, 100_000),
    "C20": (1600, 60_000),
}


def post_stage(prop, tier, results):
    """Extra deciding steps that run after the engine processes (returns extra pseudo-results)."""
    if prop == "C04" and tier == "thorough":
        d = os.path.join(PARTS, "c04dump")
        if os.path.isdir(d) and os.listdir(d):
            r = subprocess.run([sys.executable, os.path.join(ROOT, "tools", "text_crosscheck.py"), d], capture_output=True, text=True)
            try:
                j = json.loads(r.stdout.strip().splitlines()[-1])
            except Exception:  # noqa
                return [dict(kind="inconclusive", msg="python cross-check produced no result: %s" % (r.stderr[-300:]))]
            out = [dict(kind="counters", engine="python-float-crosscheck", counters={"files": j["files"], "values_reparsed": j["values"]})]
            for mm in j["mismatches"]:
                out.append(dict(kind="violation", signature="python-float-crosscheck:value-differs", rule="python-float-crosscheck", explanation=mm, replay={"engine": "python", "dump_dir": d}))
            shutil.rmtree(d, ignore_errors=True) if not j["mismatches"] else None
            return out
    return []


LEVELS = {"C17": "fault_enumeration"}

ASSUMPTIONS = {
    "_all": [
        "verdict covers only the executions produced by this run (sampled schedules / generated inputs), nothing is proved",
        "harness, oracles and reference models are trusted; they were validated against seeded breaks (mutants/, seeded/)",
    ],
    "e2": ["E2: the library's shared state is reached only through the verif_sync shim (atomics, Mutex, RwLock); the explored interleavings are sequentially consistent"],
    "e1": ["E1: real x86-64 hardware (TSO); client-boundary stamps come from one SeqCst ticket counter"],
    "static": ["C19: value identifiers avoid the macro expansion's own locals (a value literally named `x` fails to compile in >=2-label auto-flush declarations: macro hygiene, recorded in DESIGN.md)", "Miri cannot run the auto-flush expansion (it uses MaybeUninit::uninit().assume_init()); valgrind memcheck watches those accessors instead"],
    "static-memcheck": [],
    "xbuild": ["C16: the two builds run the same seeded, clock-free, single-threaded scenario; error *messages* (which embed the Debug form of the model structs) are not compared"],
    "seq": ["sequential monitors: reference models are written from the property statements; 64-bit FNV collisions between unrelated inputs are outside the statements"],
    "miri-seq": ["Miri (sequential monitors, thorough tier): undefined-behaviour interpreter over the same monitored workloads at a small case count"],
    "miri": ["Miri: weak-memory emulation and data-race detection as implemented by the installed nightly; -Zmiri-permissive-provenance because parking_lot casts integers to pointers"],
}


# --------------------------------------------------------------------------
# merge + verdict
# --------------------------------------------------------------------------
def load_known(prop):
    path = os.path.join(ROOT, "known_findings.json")
    if not os.path.exists(path):
        return []
    return [k for k in json.load(open(path)) if k.get("property") == prop and k.get("status") == "known"]


def miri_classify(res):
    """Interpret a Miri process that produced no part."""
    err = res["stderr"] or ""
    for marker in ("Undefined Behavior", "Data race detected", "data race"):
        if marker in err:
            first = next((l for l in err.splitlines() if l.startswith("error")), "error: " + marker)
            return "violation", first.strip()
    return "inconclusive", "miri run ended without a result (%s)" % (res["error"] or "exit %s" % res["rc"])


def check(prop, tier):
    t0 = time.time()
    for d in (EVID, PARTS, REPLAYS, LOGS):
        os.makedirs(d, exist_ok=True)
    for f in os.listdir(PARTS):
        if f.startswith(prop + "."):
            os.remove(os.path.join(PARTS, f))
    evid_path = os.path.join(EVID, prop + ".json")
    inconclusive = []
    results = []
    try:
        if prop == "C19":
            results = run_c19(tier)
        else:
            procs = plan(prop, tier)
            results = run_all(procs)
    except Inconclusive as e:
        inconclusive.append(str(e))

    evaluations = 0
    distinct = set()
    engines = {}
    rules = {}
    samples = []
    violations = []  # (signature, rule, explanation, replay)
    for res in results:
        p = res["proc"]
        part = res["part"]
        if part is None:
            if p.kind == "miri":
                kind, msg = miri_classify(res)
                if kind == "violation":
                    violations.append(("miri:" + msg[:120], "miri", msg + " (log: %s)" % res["log"], {"property": prop, "engine": "miri", "cmd": p.cmd, "env_MIRIFLAGS": p.env.get("MIRIFLAGS"), "log": res["log"]}))
                else:
                    inconclusive.append("%s: %s" % (p.name, msg))
            else:
                inconclusive.append("%s: no result part (%s), log %s" % (p.name, res["error"] or "exit %s" % res["rc"], res["log"]))
            continue
        eng = ("miri" if part.get("engine") != "seq" else "miri-seq") if p.kind == "miri" else part.get("engine", "?")
        e = engines.setdefault(eng, {"processes": 0, "evaluations": 0, "wall_s": 0.0})
        e["processes"] += 1
        e["evaluations"] += part.get("evaluations", 0)
        e["wall_s"] = round(e["wall_s"] + res["wall"], 2)
        for k, v in (part.get("counters") or {}).items():
            e[k] = e.get(k, 0) + v
        evaluations += part.get("evaluations", 0)
        for h in part.get("distinct") or []:
            distinct.add(eng + ":" + h)
        rules[eng] = part.get("rule", "")
        for s in part.get("samples") or []:
            if sum(1 for x in samples if x.get("engine") == eng) < 2:
                samples.append({"engine": eng, "case": s})
        for v in part.get("violations") or []:
            violations.append((v["signature"], v.get("rule", ""), v.get("explanation", ""), v.get("replay")))
        if part.get("inconclusive"):
            inconclusive.append("%s: %s" % (p.name, part["inconclusive"]))
        if res["rc"] not in (0, 1, 3) or res["error"]:
            inconclusive.append("%s: abnormal end (%s)" % (p.name, res["error"] or "exit %s" % res["rc"]))

    if not inconclusive or results:
        for extra in post_stage(prop, tier, results):
            if extra["kind"] == "inconclusive":
                inconclusive.append(extra["msg"])
            elif extra["kind"] == "counters":
                e = engines.setdefault(extra["engine"], {"processes": 1, "evaluations": 0, "wall_s": 0.0})
                e.update(extra["counters"])
            elif extra["kind"] == "violation":
                violations.append((extra["signature"], extra["rule"], extra["explanation"], extra["replay"]))

    known = load_known(prop)
    seen = {}
    for sig, rule, expl, replay in violations:
        seen.setdefault(sig, (rule, expl, replay))
    listed, unlisted = [], []
    for sig, (rule, expl, replay) in seen.items():
        k = next((k for k in known if k["signature"] == sig), None)
        (listed if k else unlisted).append((sig, rule, expl, replay, k))

    lines = []
    for sig, rule, expl, replay, k in listed:
        lines.append("KNOWN-FINDING: property=%s %s" % (prop, k.get("what_fails", sig)))
    n = 0
    for sig, rule, expl, replay, _ in unlisted:
        n += 1
        rp = os.path.join(REPLAYS, "%s-%d-%d.json" % (prop, SEED, n))
        json.dump({"property": prop, "signature": sig, "oracle_rule": rule, "explanation": expl, "replay": replay, "tier": tier, "seed": SEED, "repo_head": repo_head()}, open(rp, "w"), indent=1)
        if n <= 12:
            lines.append("VIOLATION property=%s replay=%s" % (prop, rp))
            lines.append("  # %s: %s" % (sig, expl[:400]))
    if n > 12:
        lines.append("  # ... %d more distinct violation signatures, see %s" % (n - 12, REPLAYS))

    if not unlisted and not inconclusive and len(distinct) < 2:
        inconclusive.append("coverage floor not met: %d distinct non-trivial cases" % len(distinct))

    coverage = {
        "evaluations": evaluations,
        "distinct_nontrivial": len(distinct),
        "rule": " | ".join("%s: %s" % (k, v) for k, v in sorted(rules.items())),
        "samples": samples or [{"note": "no case completed"}],
        "engines": engines,
        "violation_signatures": sorted(s for s, *_ in unlisted),
        "known_finding_signatures": sorted(s for s, *_ in listed),
    }
    if inconclusive:
        coverage["inconclusive_reason"] = inconclusive[:20]
    assumptions = list(ASSUMPTIONS["_all"])
    for eng in engines:
        assumptions += ASSUMPTIONS.get(eng, [])
    evidence = {
        "property_id": prop,
        "tier": tier,
        "seed": SEED,
        "level": LEVELS.get(prop, "exploration"),
        "coverage": coverage,
        "assumptions": assumptions,
        "wall_s": round(time.time() - t0, 2),
        "violations": len(unlisted),
        "verdict": "violated" if unlisted else ("inconclusive" if inconclusive else "held"),
    }
    # keep the schema's minimums even when nothing ran (the verdict says so)
    if coverage["evaluations"] < 1 or coverage["distinct_nontrivial"] < 2:
        evidence["coverage"]["note"] = "counts below the schema minimum are reported as measured; this run is not evidence of anything"
    json.dump(evidence, open(evid_path, "w"), indent=1)

    for l in lines:
        print(l)
    summary = "%s %s seed=%d: %d evaluations, %d distinct, engines=%s, %.1fs" % (prop, tier, SEED, evaluations, len(distinct), ",".join(sorted(engines)), time.time() - t0)
    if unlisted:
        print("FAILED " + summary)
        return 1
    if inconclusive:
        for i in inconclusive[:10]:
            print("INCONCLUSIVE: property=%s %s" % (prop, i))
        return 2
    print("OK " + summary)
    return 0


def repo_head():
    try:
        return subprocess.run(["git", "-C", REPO, "rev-parse", "HEAD"], capture_output=True, text=True).stdout.strip()
    except Exception:  # noqa
        return ""


def replay(path):
    d = json.load(open(path))
    r = d.get("replay") or {}
    prop = d.get("property") or r.get("property")
    print("replaying %s: %s\n  %s" % (prop, d.get("signature"), d.get("explanation")))
    eng = r.get("engine")
    if eng == "miri":
        e = dict(cargo_env("miri"))
        e["MIRIFLAGS"] = r.get("env_MIRIFLAGS") or MIRIFLAGS
        rc = subprocess.run(r["cmd"], cwd=HARNESS, env=e).returncode
        return 1 if rc != 0 else 0
    if eng in ("e2", "e1", "native"):
        cfg = "hook" if eng in ("e1", "e2") else "plain"
        build(cfg, "conc")
        cmd = [binpath(cfg, "conc"), prop, "--engine", eng, "--seed", str(r["seed"]), "--first", str(r["case"]), "--cases", "1", "--verbose"]
        if r.get("thorough"):
            cmd.append("--thorough")
        if eng == "e1":
            cmd += ["--secs", "5"]
        rc = subprocess.run(cmd, env=ENV).returncode
        return 1 if rc == 1 else 0
    if eng == "xbuild":
        build("plain", "xbuild", ("--features", "pb"))
        build("nopb", "xbuild")
        out = os.path.join(PARTS, "C16.replay.json")
        rc = subprocess.run([sys.executable, os.path.join(ROOT, "tools", "c16_shard.py"), binpath("plain", "xbuild"), binpath("nopb", "xbuild"), str(r["seed"]), str(r["case"]), "1", out]).returncode
        if os.path.exists(out):
            for v in json.load(open(out)).get("violations", []):
                print(v["explanation"])
        return 1 if rc == 1 else 0
    if eng == "static":
        gen_dir = os.path.join(HARNESS, "staticgen", "src", "generated")
        subprocess.run([sys.executable, os.path.join(ROOT, "tools", "gen_static.py"), str(r["seed"]), str(max(r.get("count", 0), r.get("program", 0) + 1, 60)), gen_dir], check=True)
        build("plain", "staticgen")
        cmd = [binpath("plain", "staticgen"), "--seed", str(r["seed"])]
        if r.get("memcheck"):
            cmd = ["valgrind", "--error-exitcode=9", "-q"] + cmd + ["--only-auto-flush"]
        rc = subprocess.run(cmd, env=ENV).returncode
        return 1 if rc in (1, 9) else 0
    if eng == "seq":
        return replay_seq(prop, r)
    print("do not know how to replay engine %r; the recorded case is in the file" % eng)
    return 2


def replay_seq(prop, r):
    binary = r.get("binary", "seq")
    build("plain", binary)
    cmd = [binpath("plain", binary), prop, "--seed", str(r["seed"]), "--first", str(r["case"]), "--cases", "1", "--verbose"]
    if r.get("thorough"):
        cmd.append("--thorough")
    rc = subprocess.run(cmd, env=ENV).returncode
    return 1 if rc == 1 else 0


def setup():
    try:
        build("hook", "conc")
        build("plain", "conc")
        build("plain", "seq")
        build("plain", "xbuild", ("--features", "pb"))
        build("nopb", "xbuild")
        subprocess.run([sys.executable, os.path.join(ROOT, "tools", "gen_static.py"), "1", "4", os.path.join(HARNESS, "staticgen", "src", "generated")], check=True)
        build("plain", "staticgen")
        subprocess.run(["cargo", "+nightly", "miri", "run", "-p", "conc", "--offline", "--", "C01", "--engine", "native", "--cases", "0"], cwd=HARNESS, env=miri_env(0), capture_output=True, text=True)
    except Inconclusive as e:
        print("setup failed: %s" % e)
        return 1
    print("setup ok")
    return 0


def main():
    a = sys.argv[1:]
    if not a:
        sys.exit(__doc__)
    if a[0] == "setup":
        sys.exit(setup())
    if a[0] == "replay":
        sys.exit(replay(a[1]))
    tier = a[1] if len(a) > 1 else os.environ.get("VERIF_TIER", "quick")
    if tier not in ("quick", "thorough"):
        sys.exit("tier must be quick or thorough")
    sys.exit(check(a[0], tier))


if __name__ == "__main__":
    main()
