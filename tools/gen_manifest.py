#!/usr/bin/env python3
"""Regenerates MANIFEST.json from the table below (kept next to the orchestrator so the two stay in sync)."""
import json, os
ROOT = os.path.dirname(os.path.dirname(os.path.abspath(__file__)))

CONC_NOTE = ("Trusted base: the verif_sync shim in /repo (all shared state of the crate goes through it), the token-passing scheduler, "
             "the client-boundary stamps (one SeqCst ticket counter) and the oracle/model in harness/conc. E2 explores sequentially consistent "
             "interleavings only; weaker orderings are judged by the happens-before monitor over the orderings the shim reports (no fence support). "
             "Miri runs the unguarded build (real std Mutex / parking_lot RwLock).")
SEQ_NOTE = ("Trusted base: the reference model / independent parser in harness/seq and harness/vcore, written from the property statement; "
            "inputs are generated from seeded adversarial pools, so the verdict covers the generated cases only.")

CHECKS = {
 "C01": ("history + digit-decoding oracle / linearizability search under seeded scheduler (E2), perturbed native threads (E1), Miri",
         "Samples thousands of distinct interleavings of the atomic steps of inc/inc_by/get/flush (controlled scheduler with injected spurious CAS failures), real-hardware contention and Miri's weak-memory + data-race detector; every increment is a unique power of four so each read decodes to the exact set of increments it contains. Exploration, not enumeration: nothing is claimed about schedules not drawn.", "3/C01", CONC_NOTE),
 "C02": ("history + digit-decoding snapshot oracle under seeded scheduler (E2) with vector-clock happens-before monitor on every trace; E1 stress; Miri",
         "Each snapshot must decode to one set S (count, sum, every bucket), contain completed observations, exclude later ones and be prefix-closed per thread, over thousands of distinct schedules that hit the flip/wait/drain windows (counted in the evidence). The memory-ordering clause is decided by a happens-before monitor over the orderings of the executed trace, because no engine here can exhibit a weakened hand-off on x86/Miri.", "3/C02, 3.2", CONC_NOTE),
 "C03": ("history oracle over >=3 collects (chain, conservation, batch atomicity, getters) + logical-time progress monitor under seeded scheduler (E2); E1; Miri",
         "Conservation and nesting of snapshots over histories with three or more collects and one or two collectors; the liveness clause is restated as bounded progress on the scheduler's logical clock (quiescent-spin rule and 'collector CAS fails after all in-flight observers published').", "3/C03", CONC_NOTE),
 "C10": ("Wing-Gong-Lowe linearizability search against a label-values->children map model under seeded scheduler (E2); E1; Miri; long sequential histories",
         "Histories of get-or-create/update/remove/reset/collect on 2-3 threads are searched for a linearization against the sequential map model; unique update digits reveal which handles share a child.", "3/C10", CONC_NOTE),
 "C11": ("Wing-Gong-Lowe linearizability search against a one-number model under seeded scheduler (E2); E1; Miri",
         "Every value returned by get/collect must be explained by some real-time-consistent order of set/inc/dec/add/sub with the library's exact arithmetic; operands have distinct 32-bit halves so a torn set cannot decode to a legal value.", "3/C11", CONC_NOTE),
 "C04": ("differential monitor: independent text-format parser vs expected sample sequence on generated families (+ python float re-parse in thorough)",
         "Generated families (library-built worlds and hand-built families with adversarial strings, every f64 class, timestamps, explicit +Inf buckets) are encoded through all three entry points, parsed by an independent parser of format 0.0.4 and compared line by line.", "4/C04", SEQ_NOTE),
 "C05": ("reference-model monitor: tuple->child map checked after every request via unique-digit updates",
         "Requests through all four lookup forms over boundary-shifted tuples; after each request a unique amount is added through the handle and the whole collection is compared with the model map.", "4/C05", SEQ_NOTE),
 "C06": ("reference-model monitor + twin-registry differential monitor over random register/unregister/gather histories; Wing-Gong-Lowe linearizability search over the same calls issued by 3-4 real threads (E1)",
         "Expected outcome of every call from the statement, plus a twin registry that never sees the failed calls: any divergence in outcomes, gathers or the final probe is state left behind by a failed call. Histories issued by several threads (barrier-aligned and free-running, closing sequential probe included) must have a real-time-consistent sequential explanation under the same admission rule, with every gather showing the registered descriptor set of its place in the order.", "4/C06", SEQ_NOTE + " The threaded stage runs on real threads only (the registry's lock is not routed through the sync shim), so its reach is what 16 cores and aligned starts produce in the time budget."),
 "C07": ("reference-model + differential monitor: same collectors in several registration orders / hash states vs modelled gather; gathers concurrent with register/unregister judged by a linearizability search on real threads (E1)",
         "Random compatible worlds registered in 3-5 orders into fresh registries (fresh RandomStates, alternate threads); every gather must equal the model and the other gathers, and pass the ordering/uniqueness invariants. Gathers issued while other threads register and unregister (E1 stage shared with C06) must show the descriptor set of one state of the registry, in name order, no sample twice.", "4/C07", SEQ_NOTE),
 "C08": ("reference-model monitor: Vec<f64> reference histogram vs collected buckets/sum/count; acceptance rule on generated bound lists",
         "Bucket lists from every f64 class (sorted, unsorted, duplicated, NaN, infinite, empty) and observations at bounds +-1ulp through Histogram, HistogramVec children and LocalHistogram with interleaved collects.", "4/C08", SEQ_NOTE),
 "C09": ("reference-matcher monitor on every constructor + exposition invariant monitor on every gather",
         "Admission of every constructor is compared with byte-wise matchers of the two name grammars and the duplicate/le rules; whatever is admitted is registered (plain and custom registries from the pools) and every gather is checked for valid, pairwise distinct names.", "4/C09", SEQ_NOTE),
 "C12": ("reference-model monitor over random local-metric histories (counters, histograms, vectors with child identities)",
         "After every operation the shared metric must equal direct updates plus flushed batches and every local getter must equal its accumulator; clone/drop/remove semantics per the statement.", "4/C12", SEQ_NOTE),
 "C13": ("differential monitor: independent protobuf wire decoder (schema table from the .proto) vs gathered families",
         "The byte stream must be exactly (varint length, MetricFamily)* and decode to the families through an independent decoder; refused families must leave no partial message.", "4/C13", SEQ_NOTE),
 "C14": ("exposition invariant monitor (payload vs declared type) on every gather + dedicated mixed-kind workload",
         "Every gather of every world is checked for payload/type agreement; the dedicated workload registers different kinds under one name and requires a hash-seed independent type. The one listed known finding (gather merges same-name collectors of different kinds) is reported as KNOWN-FINDING; any other signature is a violation.", "4/C14, 7/F7", SEQ_NOTE),
 "C15": ("bijection monitor: id <-> (name, const values in name order) and dim_hash <-> (help, label-name sets) over generated descriptors",
         "Descriptors built from boundary-shifted pools with random insertion orders and hasher states; both tables must be functions in both directions.", "4/C15", SEQ_NOTE),
 "C16": ("differential monitor: one seeded scenario interpreter built with and without the protobuf feature, dump streams compared",
         "The same clock-free single-threaded scenarios (all metric kinds, registries with prefix/common labels, removals, resets, local flushes, custom summary/histogram families with timestamps) run in both builds; every gather/collect is dumped through getters common to both data models together with the TextEncoder bytes and the two streams must be identical.", "4/C16",
         "Trusted base: the scenario interpreter and its canonical dump (harness/xbuild), the accessor shim between the two models (value() vs get_value()); error messages are not compared because they embed the Debug form of the model structs."),
 "C19": ("generated client programs: seeded macro declarations compiled against /repo, every accessor path driven and the backing vector compared with the generator's model; valgrind memcheck on the auto-flush accessors",
         "Quantifies over programs: declarations from the grammar (1-4 labels x 1-4 values, inline/enum/renamed values, eight metric types, three auto-flush types, permuted backing vectors) are generated per run, compiled and executed; each leaf is updated through field paths, get(enum) and try_get(str) mixes with unique amounts; six auto-flush programs in ten add a threaded phase (2-4 threads share the delegator, each sees only its own thread-local pending amounts, flushes through the struct or through leaf handles, and a barrier-aligned flush storm hits one handle from all threads round after round). The pointer-offset delegators of the auto-flush expansion additionally run under memcheck, where a wrong offset that leaves the thread-local struct is an invalid read.", "4/C19",
         "Trusted base: tools/gen_static.py (declaration + expected model), harness/staticgen compare(); value identifiers avoid the expansion's own locals (hygiene issue recorded in DESIGN.md); Miri cannot execute the auto-flush expansion."),
 "C17": ("fault-injection sweep under catch_unwind: pool arguments for every Result API, arbitrary families, writer failing at every byte",
         "Panics are caught and attributed; Err is required for the documented invalid classes; the failing-writer fault point is enumerated completely per sampled input (every k up to the output length, capped at 1500 in quick).", "4/C17", SEQ_NOTE),
 "C18": ("reference-model monitor over random timer histories incl. cross-thread moves",
         "After every step the histogram's count must equal the model; stop_and_record's return value must be bit-exactly what was added to the sum.", "4/C18", SEQ_NOTE),
 "C20": ("differential monitor: every macro arm as a call site vs the explicit constructor twin, with runtime-generated arguments",
         "Descriptor fields, buckets, target registry, handle identity (update visible through the registry) and Err on the second registration are compared for each of the ~130 arms (with and without trailing comma).", "4/C20", SEQ_NOTE),
}

NOT_APPLICABLE = []

def main():
    checks = []
    for pid in sorted(CHECKS):
        tech, text, ref, note = CHECKS[pid]
        checks.append({
            "property_id": pid,
            "quick_cmd": "./run.sh %s quick" % pid,
            "thorough_cmd": "./run.sh %s thorough" % pid,
            "evidence_file": "/verif/evidence/%s.json" % pid,
            "replay_cmd_template": "./run.sh replay {path}",
            "engine": "conc" if pid in ("C01", "C02", "C03", "C10", "C11") else ("xbuild" if pid == "C16" else ("staticgen" if pid == "C19" else "seq")),
            "level_claimed": {"category": "fault_enumeration" if pid == "C17" else "exploration", "text": text, "design_ref": "DESIGN.md section " + ref},
            "level_note": note,
            "technique": "runtime monitoring: " + tech,
        })
    m = {
        "version": 1,
        "setup_cmd": "./setup.sh",
        "hooks": {
            "guard": "prometheus_verif",
            "enable": "RUSTFLAGS='--cfg prometheus_verif' (set by tools/run_check.py for the hooked harness build in target/hook); cfg declared in /repo/build.rs",
            "baseline_off_cmd": "cd /repo && cargo nextest run --workspace --no-fail-fast --test-threads 8 --offline",
            "source_commits": ["297c5ee", "6f7b4aa"],
            "add_only": True,
        },
        "engines": [
            {"name": "conc", "path": "harness/conc", "serves_properties": ["C01", "C02", "C03", "C06", "C07", "C10", "C11"], "kind_free_text": "E1 perturbed native threads, E2 seeded token-passing scheduler over the verif_sync shim with trace monitors (happens-before, progress), E3 Miri on the unguarded build; client-boundary histories checked by digit-decoding oracles and a Wing-Gong-Lowe search"},
            {"name": "seq", "path": "harness/seq", "serves_properties": sorted(p for p in CHECKS if p not in ("C01", "C02", "C03", "C10", "C11", "C16", "C19")), "kind_free_text": "E4 reference-model / differential monitors driven by seeded adversarial generators; E5 exposition invariant monitors on every gather"},
            {"name": "xbuild", "path": "harness/xbuild", "serves_properties": ["C16"], "kind_free_text": "scenario interpreter built twice (protobuf / plain data model) with canonical dumps, compared by tools/c16_shard.py"},
            {"name": "staticgen", "path": "harness/staticgen + tools/gen_static.py", "serves_properties": ["C19"], "kind_free_text": "E6 generated client programs for the static-metric macros, run natively and (auto-flush) under valgrind memcheck"},
            {"name": "orchestrator", "path": "tools/run_check.py", "serves_properties": sorted(CHECKS), "kind_free_text": "builds the harness from /repo's working tree, shards engine processes, merges parts into evidence, filters known findings, decides exit code"},
        ],
        "checks": checks,
        "notes": "baseline_off_cmd mirrors BASELINE.json (nextest, one process per test): under plain `cargo test` the unchanged snapshot's registry::tests::test_default_registry is flaky because it compares two gathers of the process-global default registry while other tests register into it. Exit codes: 0 held / 1 VIOLATION / 2 INCONCLUSIVE (harness does not build against the edited tree, watchdog, no coverage). VERIF_SEED seeds every PRNG; VERIF_JOBS caps parallelism. known_findings.json lists one known finding (C14) and the fixed defects.",
        "not_applicable": NOT_APPLICABLE,
    }
    json.dump(m, open(os.path.join(ROOT, "MANIFEST.json"), "w"), indent=1)

if __name__ == "__main__":
    main()
