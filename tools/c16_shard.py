#!/usr/bin/env python3
"""One shard of the C16 check: run the same scenarios through the protobuf-model build and the
plain-model build of the scenario interpreter, compare per-scenario digests, and for a
scenario whose digests differ re-run both in full and report the first differing line."""
import json, os, subprocess, sys, tempfile

def main():
    pb, plain, seed, first, cases, out = sys.argv[1:7]
    tmp = tempfile.mkdtemp(prefix="c16-", dir=os.path.dirname(out))
    part = {"property": "C16", "engine": "xbuild", "seed": int(seed), "evaluations": 0, "distinct": [], "rule":
            "one case = one deterministic scenario (metric creation, updates, registration, gathers, collects, text encodes) executed by both builds; distinct = distinct scenario dump digests",
            "counters": {}, "samples": [], "violations": [], "inconclusive": None, "notes": []}
    try:
        fa, fb = os.path.join(tmp, "pb.txt"), os.path.join(tmp, "plain.txt")
        for b, f in ((pb, fa), (plain, fb)):
            r = subprocess.run([b, "--seed", seed, "--first", first, "--cases", cases, "--dump", f], capture_output=True, text=True)
            if r.returncode != 0:
                # a panic in one build only is a difference too, but we cannot attribute it: inconclusive with the message
                part["inconclusive"] = "%s exited %d: %s" % (os.path.basename(os.path.dirname(os.path.dirname(b))), r.returncode, r.stderr[-400:])
                break
        else:
            la, lb = open(fa).read().splitlines(), open(fb).read().splitlines()
            part["evaluations"] = len(la)
            expos = 0
            for x, y in zip(la, lb):
                ca, da, na = x.split()[1:4]
                expos += int(na) // 2
                part["distinct"].append(da)
                if x != y:
                    case = ca
                    full = []
                    for b in (pb, plain):
                        f = os.path.join(tmp, "full.txt")
                        subprocess.run([b, "--seed", seed, "--first", case, "--cases", "1", "--dump", f, "--full"], capture_output=True, text=True)
                        full.append(open(f).read().splitlines())
                    diff = next(((p, q) for p, q in zip(full[0], full[1]) if p != q), (None, None))
                    if diff[0] is None:
                        diff = ("%d lines" % len(full[0]), "%d lines" % len(full[1]))
                    what = diff[0].split()[2] if diff[0] and diff[0].startswith("case") else "?"
                    kind = diff[0].split()[3] if diff[0] and diff[0].startswith("case") and len(diff[0].split()) > 3 else "?"
                    part["violations"].append({
                        "signature": "models-differ:%s" % ("text" if kind == "T" else "structure" if kind == "D" else "shape"),
                        "rule": "models-differ",
                        "explanation": "scenario %s, %s: protobuf-model build gives %s | plain-model build gives %s" % (case, what, (diff[0] or "")[:600], (diff[1] or "")[:600]),
                        "replay": {"property": "C16", "engine": "xbuild", "seed": int(seed), "case": int(case)},
                    })
                    if len(part["violations"]) >= 5:
                        break
            if len(la) != len(lb):
                part["violations"].append({"signature": "models-differ:shape", "rule": "models-differ", "explanation": "%d scenarios dumped by the protobuf build, %d by the plain build" % (len(la), len(lb)), "replay": {"property": "C16", "engine": "xbuild", "seed": int(seed), "case": int(first)}})
            part["counters"]["expositions_compared"] = expos
            part["counters"]["scenarios_compared"] = len(la)
            # one written-out sample
            f = os.path.join(tmp, "sample.txt")
            subprocess.run([pb, "--seed", seed, "--first", first, "--cases", "1", "--dump", f, "--full"], capture_output=True, text=True)
            part["samples"] = [{"scenario": int(first), "dump_lines": [l[:700] for l in open(f).read().splitlines()[:4]]}]
    finally:
        for fn in os.listdir(tmp):
            os.remove(os.path.join(tmp, fn))
        os.rmdir(tmp)
    # dedupe violations by signature
    seen, vs = set(), []
    for v in part["violations"]:
        if v["signature"] not in seen:
            seen.add(v["signature"])
            vs.append(v)
    part["violations"] = vs
    json.dump(part, open(out, "w"))
    sys.exit(1 if vs else 0)

if __name__ == "__main__":
    main()
