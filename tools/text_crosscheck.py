#!/usr/bin/env python3
"""Independent re-check of the float path of the text exposition (C04, thorough tier).

Reads the dumps written by the seq harness (text + expected sample values as hex bit
patterns) and re-parses every sample value and le/quantile label with Python's
correctly rounded float(), which shares no code with Rust's Display/FromStr.
Prints one JSON line: {"files":n,"values":n,"mismatches":[...]}; exit 1 on mismatch.
"""
import json, struct, sys, os, math


def bits(x):
    return struct.unpack("<Q", struct.pack("<d", x))[0]


def same(parsed, want_bits):
    want = struct.unpack("<d", struct.pack("<Q", want_bits))[0]
    if math.isnan(want):
        return math.isnan(parsed)
    return bits(parsed) == want_bits


def split_sample(line):
    """-> (name, [(label, value)], value_token)"""
    i = 0
    while i < len(line) and line[i] not in " \t{":
        i += 1
    name = line[:i]
    labels = []
    while i < len(line) and line[i] in " \t":
        i += 1
    if i < len(line) and line[i] == "{":
        i += 1
        while True:
            while line[i] in " \t,":
                i += 1
            if line[i] == "}":
                i += 1
                break
            j = i
            while line[j] not in "= \t":
                j += 1
            lname = line[i:j]
            i = line.index('"', j) + 1
            val = []
            while line[i] != '"':
                if line[i] == "\\":
                    val.append({"n": "\n", "\\": "\\", '"': '"'}[line[i + 1]])
                    i += 2
                else:
                    val.append(line[i])
                    i += 1
            i += 1
            labels.append((lname, "".join(val)))
    rest = line[i:].split()
    return name, labels, rest[0]


def main():
    d = sys.argv[1]
    files = values = 0
    mism = []
    for fn in sorted(os.listdir(d)):
        if not fn.endswith(".json"):
            continue
        files += 1
        j = json.load(open(os.path.join(d, fn)))
        lines = [l for l in j["text"].split("\n") if l and not l.startswith("#")]
        if len(lines) != len(j["samples"]):
            mism.append("%s: %d sample lines, %d expected" % (fn, len(lines), len(j["samples"])))
            continue
        for line, exp in zip(lines, j["samples"]):
            try:
                name, labels, tok = split_sample(line)
                v = float(tok.replace("Inf", "inf").replace("NaN", "nan"))
                values += 1
                if name != exp["name"] or not same(v, int(exp["bits"], 16)):
                    mism.append("%s: %r value %s != expected bits %s" % (fn, line[:200], tok, exp["bits"]))
                if exp.get("extra_bits"):
                    lv = float(labels[-1][1].replace("Inf", "inf").replace("NaN", "nan"))
                    values += 1
                    if not same(lv, int(exp["extra_bits"], 16)):
                        mism.append("%s: %r le/quantile %s != expected bits %s" % (fn, line[:200], labels[-1][1], exp["extra_bits"]))
            except Exception as e:  # noqa
                mism.append("%s: %r does not parse: %s" % (fn, line[:200], e))
    print(json.dumps({"files": files, "values": values, "mismatches": mism[:20]}))
    sys.exit(1 if mism else 0)


if __name__ == "__main__":
    main()
