#!/usr/bin/env python3
"""C19 generator: seeded static-metric declarations + drivers with the expected model baked in.

  gen_static.py <seed> <count> <out_dir>

Writes <out_dir>/gen_<i>.rs (one module per declaration) and <out_dir>/generated.rs
(the module list and a table of entry points). Grammar: 1-4 labels x 1-4 values,
inline value lists / label_enum references / renamed values (string literals from an
adversarial pool, also shared between labels), all eight metric types of
make_static_metric! and the three local types of make_auto_flush_static_metric!,
backing vector created with a random permutation of the label names.
"""
import json, os, random, sys

METRIC_TYPES = ["Counter", "IntCounter", "Gauge", "IntGauge", "Histogram", "LocalCounter", "LocalIntCounter", "LocalHistogram"]
AF_TYPES = ["LocalCounter", "LocalIntCounter", "LocalHistogram"]
IDENTS = ["foo", "bar", "post", "get", "put", "delete", "http1", "http2", "alpha", "beta", "gamma", "delta", "v1", "v2", "ok", "err_", "a1", "b2", "zz", "long_value_name", "up", "down", "left", "right"]
# identifiers the macros' own expansion uses as locals: kept out of the generated space (see DESIGN.md, C19)
VALUE_STRINGS = ["HTTP/1", "HTTP/2", "", " ", "a b", "é", "日本", "x\"y", "back\\slash", "new\nline", "{}", "=", ",", "le", "0", "-1", "UPPER", "a", "b", "ab", "foo", "bar"]
# value sets for two adjacent labels whose concatenations coincide unless values are kept apart
SHIFT_PAIRS = [([("a", "a"), ("ab", "ab")], [("bc", "bc"), ("c", "c")]),
               ([("p1", "1"), ("p12", "12")], [("s23", "23"), ("s3", "3")]),
               ([("none", ""), ("x_", "x")], [("none", ""), ("x_", "x")]),
               ([("e1", "é"), ("e0", "")], [("t1", "x"), ("t2", "éx")])]
LABEL_KEYS = ["method", "product", "version", "code", "l1", "l2", "zone", "kind", "_x", "A9"]


def rs_str(s):
    out = '"'
    for ch in s:
        if ch == '"':
            out += '\\"'
        elif ch == "\\":
            out += "\\\\"
        elif ch == "\n":
            out += "\\n"
        else:
            out += ch
    return out + '"'


def vec_type(mt):
    base = mt[5:] if mt.startswith("Local") else mt
    return base + "Vec"


class Decl:
    def __init__(self, rng, idx, auto_flush):
        self.idx = idx
        self.auto_flush = auto_flush
        self.mtype = rng.choice(AF_TYPES if auto_flush else METRIC_TYPES)
        nlabels = rng.randint(1, 4)
        keys = rng.sample(LABEL_KEYS, nlabels)
        self.enums = []  # (enum name, [(ident, value)])
        self.labels = []  # (key, enum index or None, [(ident, value)])
        for li, key in enumerate(keys):
            nvals = rng.randint(1, 4)
            idents = rng.sample(IDENTS, nvals)
            vals = []
            for ident in idents:
                if rng.random() < 0.4:
                    vals.append((ident, rng.choice(VALUE_STRINGS)))  # renamed value
                else:
                    vals.append((ident, ident))
            # keep values of one label distinct so every field has its own child (duplicates are a separate, rarer shape)
            if rng.random() < 0.9:
                seen, ded = set(), []
                for ident, v in vals:
                    if v in seen:
                        v = ident
                    if v in seen:
                        continue
                    seen.add(v)
                    ded.append((ident, v))
                vals = ded
            use_enum = rng.random() < 0.5
            if use_enum:
                # sometimes reuse an earlier enum for another label (shared values between labels)
                if self.enums and rng.random() < 0.3:
                    ei = rng.randrange(len(self.enums))
                    vals = self.enums[ei][1]
                else:
                    self.enums.append(("E%d_%d" % (idx, len(self.enums)), vals))
                    ei = len(self.enums) - 1
                self.labels.append((key, ei, vals))
            else:
                self.labels.append((key, None, vals))
        # one program in eight: one label has many values (18-40), renamed so that name order and value order differ
        if rng.random() < (0.3 if auto_flush else 0.125):
            li = rng.randrange(nlabels)
            key, ei, _ = self.labels[li]
            n = rng.choice([33, 40, 70] if auto_flush else [18, 33, 40])
            vals = [("k%02d" % i, "val%02d" % ((i * 7) % n)) for i in range(n)]
            if ei is not None:
                self.enums.append(("E%d_%d" % (idx, len(self.enums)), vals))
                ei = len(self.enums) - 1
            # keep the leaf count manageable: the other labels shrink to at most two values
            for lj in range(nlabels):
                if lj != li:
                    k2, e2, v2 = self.labels[lj]
                    v2 = v2[:2]
                    if e2 is not None:
                        self.enums.append(("E%d_%d" % (idx, len(self.enums)), v2))
                        e2 = len(self.enums) - 1
                    self.labels[lj] = (k2, e2, v2)
            self.labels[li] = (key, ei, vals)
        # one program in four: two adjacent labels get boundary-shifted value families
        if nlabels >= 2 and rng.random() < 0.25:
            at = rng.randrange(nlabels - 1)
            first, second = rng.choice(SHIFT_PAIRS)
            for off, vals in ((0, first), (1, second)):
                key, ei, _ = self.labels[at + off]
                vals = list(vals)
                if ei is not None:
                    self.enums.append(("E%d_%d" % (idx, len(self.enums)), vals))
                    ei = len(self.enums) - 1
                self.labels[at + off] = (key, ei, vals)
        self.perm = keys[:]
        rng.shuffle(self.perm)
        self.struct = "S%d" % idx
        # one plain declaration in three is built through the static-metric register macro
        # (register_static_<type>_vec!): the backing vector then lives in the default registry
        self.via_register = (not auto_flush) and (not self.mtype.startswith("Local")) and rng.random() < 0.34
        self.buckets = None
        if self.via_register and self.mtype == "Histogram" and rng.random() < 0.7:
            self.buckets = rng.choice([[0.5, 1.0, 2.5], [1.0], [-1.0, 0.0, 10.0, 1e9], [0.001, 0.002]])

    # ------------------------------------------------------------------
    def decl_src(self):
        macro = "make_auto_flush_static_metric" if self.auto_flush else "make_static_metric"
        out = ["%s! {" % macro]
        for name, vals in self.enums:
            out.append("    pub label_enum %s {" % name)
            for ident, v in vals:
                out.append("        %s," % (ident if ident == v else "%s: %s" % (ident, rs_str(v))))
            out.append("    }")
        out.append("    pub struct %s: %s {" % (self.struct, self.mtype))
        for key, ei, vals in self.labels:
            if ei is not None:
                out.append("        %s => %s," % (rs_str(key), self.enums[ei][0]))
            else:
                out.append("        %s => {" % rs_str(key))
                for ident, v in vals:
                    out.append("            %s," % (ident if ident == v else "%s: %s" % (ident, rs_str(v))))
                out.append("        },")
        out.append("    }")
        out.append("}")
        return "\n".join(out)

    def leaves(self):
        """all (ident path, value tuple in declaration order)"""
        paths = [([], [])]
        for key, ei, vals in self.labels:
            paths = [(p + [ident], t + [v]) for (p, t) in paths for ident, v in vals]
        return paths

    def update_code(self, expr, amount):
        base = self.mtype[5:] if self.mtype.startswith("Local") else self.mtype
        if base == "Counter":
            return "%s.inc_by(%d.0);" % (expr, amount)
        if base == "IntCounter":
            return "%s.inc_by(%d);" % (expr, amount)
        if base == "Gauge":
            return "%s.add(%d.0);" % (expr, amount)
        if base == "IntGauge":
            return "%s.add(%d);" % (expr, amount)
        return "%s.observe(%d.0);" % (expr, amount)

    def driver_src(self, rng):
        """Rust source of `pub fn run(r: &mut crate::Rep)`."""
        is_local = self.mtype.startswith("Local")
        base = self.mtype[5:] if is_local else self.mtype
        vt = vec_type(self.mtype)
        perm = ", ".join(rs_str(k) for k in self.perm)
        opts = 'HistogramOpts::new("c19_m%d", "help")' % self.idx if base == "Histogram" else 'Opts::new("c19_m%d", "help")' % self.idx
        out = []
        if self.auto_flush:
            out.append("lazy_static::lazy_static! {")
            out.append("    pub static ref VEC: %s = %s::new(%s, &[%s]).unwrap();" % (vt, vt, opts, perm))
            out.append("}")
        out.append("pub fn run(r: &mut crate::Rep) {")
        if self.auto_flush:
            # zero flush interval: may_flush() fires on every update; half of the programs flush explicitly instead
            self.zero_interval = rng.random() < 0.5
            self.flushed_midway = False
            dur = "std::time::Duration::from_millis(0)" if self.zero_interval else "std::time::Duration::from_secs(3600)"
            out.append("    let vec: &%s = &VEC;" % vt)
            out.append("    let m: %s = auto_flush_from!(VEC, %s, %s);" % (self.struct, self.struct, dur))
        elif self.via_register:
            macro = {"Counter": "counter", "IntCounter": "int_counter", "Gauge": "gauge", "IntGauge": "int_gauge", "Histogram": "histogram"}[self.mtype]
            self.reg_name = "c19_reg_m%d" % self.idx
            extra = (", vec![%s]" % ", ".join(repr(float(b)) for b in self.buckets)) if self.buckets else ""
            out.append("    let m = register_static_%s_vec!(%s, %s, \"help\", &[%s]%s).unwrap();" % (macro, self.struct, rs_str(self.reg_name), perm, extra))
        else:
            out.append("    let vec = %s::new(%s, &[%s]).unwrap();" % (vt, opts, perm))
            out.append("    let m = %s::from(&vec);" % self.struct)
        expected = {}  # value tuple (declaration order) -> (sum, count)
        pend = {}  # leaf (identifier path) -> (amount, observations) accumulated locally since the last flush (long interval only)
        npaths = 0
        num = (lambda a: "%d.0" % a) if base in ("Counter", "Gauge", "Histogram") else (lambda a: "%d" % a)
        if self.auto_flush and not self.zero_interval:
            # an update that is reset()/clear()ed before any flush must never reach the child
            idents0, tup0 = self.leaves()[0]
            e0 = "m." + ".".join(idents0)
            out.append("    " + self.update_code(e0, rng.randint(1, 1 << 20)))
            out.append("    %s.%s();" % (e0, "clear" if base == "Histogram" else "reset"))
            out.append("    r.part.count(\"auto_flush_reset_or_clear_calls\", 1);")
            expected.setdefault(tuple(tup0), (0, 0))
        for idents, tup in self.leaves():
            # 1) plain field path
            variants = ["m." + ".".join(idents)]
            # 2) get(enum) wherever the label is an enum reference, fields elsewhere
            e = "m"
            used_get = False
            for (key, ei, vals), ident in zip(self.labels, idents):
                if ei is not None and rng.random() < 0.7:
                    e += ".get(%s::%s)" % (self.enums[ei][0], ident)
                    used_get = True
                else:
                    e += "." + ident
            if used_get:
                variants.append(e)
            # 3) try_get(str) mixes (not generated by the auto-flush macro)
            if not self.auto_flush:
                e = "m"
                for (key, ei, vals), ident, v in zip(self.labels, idents, tup):
                    if rng.random() < 0.6:
                        e += ".try_get(%s).unwrap()" % rs_str(v)
                    else:
                        e += "." + ident
                variants.append(e)
            # what is pending is per leaf (each leaf owns a local metric); what reaches the vector is per value tuple:
            # with n = 70 the multiplier 7 deliberately maps seven variants onto each value
            leaf = tuple(idents)
            for expr in variants:
                amount = rng.randint(1, 1 << 20)
                out.append("    " + self.update_code(expr, amount))
                key = tuple(tup)
                s, c = expected.get(key, (0, 0))
                expected[key] = (s + amount, c + 1)
                pa, pc_ = pend.get(leaf, (0, 0))
                pend[leaf] = (pa + amount, pc_ + 1)
                npaths += 1
            if self.auto_flush:
                expr = variants[0]
                key = tuple(tup)
                if base != "Histogram":
                    out.append("    %s.inc();" % expr)
                    s0, c0 = expected.get(key, (0, 0))
                    expected[key] = (s0 + 1, c0 + 1)
                    pa, pc_ = pend.get(leaf, (0, 0))
                    pend[leaf] = (pa + 1, pc_ + 1)
                    # the local getter shows what is pending: nothing when every update flushes, everything otherwise
                    pending = 0 if self.zero_interval else pend[leaf][0]
                    out.append("    if %s.get() != %s { r.fail(%d, \"auto-flush-local-get-wrong\", format!(\"%s.get() = {:?}, pending amount is %s\", %s.get())); }" % (expr, num(pending), self.idx, expr.replace('"', "'"), num(pending), expr))
                else:
                    out.append("    if %s.observe_closure_duration(|| %d) != %d { r.fail(%d, \"auto-flush-closure-result-lost\", String::new()); }" % (expr, self.idx + 7, self.idx + 7, self.idx))
                    s0, c0 = expected.get(key, (0, 0))
                    expected[key] = (s0, c0 + 1)  # the timed closure adds one observation of a few nanoseconds
                    pa, pc_ = pend.get(leaf, (0, 0))
                    pend[leaf] = (pa, pc_ + 1)
                    pc = 0 if self.zero_interval else pend[leaf][1]
                    out.append("    if %s.get_sample_count() != %d { r.fail(%d, \"auto-flush-local-get-wrong\", format!(\"get_sample_count = {}, pending observations are %d\", %s.get_sample_count())); }" % (expr, pc, self.idx, pc, expr))
                    # the pending sum: the observed amounts are integers >= 1, the timed closure adds a few nanoseconds
                    ps = 0 if self.zero_interval else pend[leaf][0]
                    out.append("    if (%s.get_sample_sum() - %d.0).abs() >= 0.5 { r.fail(%d, \"auto-flush-local-get-wrong\", format!(\"get_sample_sum = {}, pending observations sum to %d (+ a timed closure)\", %s.get_sample_sum())); }" % (expr, ps, self.idx, ps, expr))
                out.append("    r.part.count(\"auto_flush_getter_checks\", 1);")
                if rng.random() < 0.2:
                    out.append("    %s.flush();" % expr)
                    pend = {}
        # threaded phase (auto-flush only): the delegator is shared, every thread gets its own thread-local
        # inner struct; a thread sees only what it has pending itself and its flush delivers exactly that
        if self.auto_flush and rng.random() < 0.6:
            all_leaves = self.leaves()
            nthreads = rng.randint(2, 4)
            storm_rounds = rng.choice([8, 25, 60])
            out.append("    let gate = std::sync::Barrier::new(%d);" % nthreads)
            out.append("    let storm = std::sync::atomic::AtomicUsize::new(0);")
            out.append("    std::thread::scope(|s| {")
            out.append("        let m = &m;")
            out.append("        let gate = &gate;")
            out.append("        let storm = &storm;")
            out.append("        let mut hs = Vec::new();")
            for t in range(nthreads):
                out.append("        hs.push(s.spawn(move || -> Vec<String> {")
                out.append("            let mut errs: Vec<String> = Vec::new();")
                tp = {}
                chosen = rng.sample(all_leaves, min(len(all_leaves), rng.randint(1, 4)))
                if rng.random() < 0.75:
                    chosen[0] = all_leaves[0]  # several threads meet on one leaf
                for idents, tup in chosen:
                    leaf = tuple(idents)
                    key = tuple(tup)
                    plain = "m." + ".".join(idents)
                    for rep in range(rng.randint(1, 3)):
                        e = "m"
                        for (lkey, ei, vals), ident in zip(self.labels, idents):
                            if ei is not None and rng.random() < 0.5:
                                e += ".get(%s::%s)" % (self.enums[ei][0], ident)
                            else:
                                e += "." + ident
                        amount = rng.randint(1, 1 << 20)
                        out.append("            " + self.update_code(e, amount))
                        s0, c0 = expected.get(key, (0, 0))
                        expected[key] = (s0 + amount, c0 + 1)
                        pa, pc_ = tp.get(leaf, (0, 0))
                        tp[leaf] = (pa + amount, pc_ + 1)
                        npaths += 1
                    if base != "Histogram":
                        pending = 0 if self.zero_interval else tp[leaf][0]
                        out.append("            if %s.get() != %s { errs.push(format!(\"thread %d: %s.get() = {:?}, this thread has %s pending\", %s.get())); }" % (plain, num(pending), t, plain, num(pending), plain))
                    else:
                        pc = 0 if self.zero_interval else tp[leaf][1]
                        out.append("            if %s.get_sample_count() != %d { errs.push(format!(\"thread %d: %s.get_sample_count() = {}, this thread has %d observations pending\", %s.get_sample_count())); }" % (plain, pc, t, plain, pc, plain))
                    if rng.random() < 0.3:
                        out.append("            %s.flush();" % plain)
                        if base != "Histogram":
                            tp = {}  # a counter handle flushes the whole tree of this thread
                            out.append("            if %s.get() != %s { errs.push(format!(\"thread %d: %s.get() = {:?} right after its flush()\", %s.get())); }" % (plain, num(0), t, plain, plain))
                        else:
                            tp[leaf] = (0, 0)
                            out.append("            if %s.get_sample_count() != 0 { errs.push(format!(\"thread %d: %s.get_sample_count() = {} right after its flush()\", %s.get_sample_count())); }" % (plain, t, plain, plain))
                # every thread has updated before any thread flushes, and the flushes start together; half of
                # the threads flush through the leaf handles (a counter handle flushes the thread's whole tree,
                # a histogram handle its own leaf), the others through the struct
                out.append("            gate.wait();")
                touched = []
                for idents, _ in chosen:
                    if idents not in touched:
                        touched.append(idents)
                if rng.random() < 0.5:
                    out.append("            m.flush();")
                elif base != "Histogram":
                    out.append("            %s.flush();" % ("m." + ".".join(touched[0])))
                else:
                    for idents in touched:
                        out.append("            %s.flush();" % ("m." + ".".join(idents)))
                for idents in touched:
                    plain = "m." + ".".join(idents)
                    if base != "Histogram":
                        out.append("            if %s.get() != %s { errs.push(format!(\"thread %d: %s.get() = {:?} after flush()\", %s.get())); }" % (plain, num(0), t, plain, plain))
                    else:
                        out.append("            if %s.get_sample_count() != 0 { errs.push(format!(\"thread %d: %s.get_sample_count() = {} after flush()\", %s.get_sample_count())); }" % (plain, t, plain, plain))
                # flush storm: all threads update one leaf, meet at a spin barrier and flush through the same
                # leaf handle at the same moment, round after round; every flush must empty the caller's own tree
                idents0, tup0 = all_leaves[0]
                plain0 = "m." + ".".join(idents0)
                key0 = tuple(tup0)
                amount = rng.randint(1, 1 << 16)
                out.append("            for round in 0..%d_usize {" % storm_rounds)
                out.append("                " + self.update_code(plain0, amount))
                out.append("                storm.fetch_add(1, std::sync::atomic::Ordering::SeqCst);")
                out.append("                let mut sp = 0u32;")
                out.append("                while storm.load(std::sync::atomic::Ordering::SeqCst) < %d * (round + 1) { sp += 1; if sp %% 64 == 0 { std::thread::yield_now(); } std::hint::spin_loop(); }" % nthreads)
                out.append("                %s.flush();" % plain0)
                if base != "Histogram":
                    out.append("                if %s.get() != %s && errs.len() < 3 { errs.push(format!(\"thread %d, storm round {}: %s.get() = {:?} right after its flush()\", round, %s.get())); }" % (plain0, num(0), t, plain0, plain0))
                else:
                    out.append("                if %s.get_sample_count() != 0 && errs.len() < 3 { errs.push(format!(\"thread %d, storm round {}: %s.get_sample_count() = {} right after its flush()\", round, %s.get_sample_count())); }" % (plain0, t, plain0, plain0))
                out.append("            }")
                s0, c0 = expected.get(key0, (0, 0))
                expected[key0] = (s0 + amount * storm_rounds, c0 + storm_rounds)
                npaths += 1
                out.append("            errs")
                out.append("        }));")
            out.append("        for h in hs { for e in h.join().unwrap() { r.fail(%d, \"auto-flush-local-get-wrong\", e); } }" % self.idx)
            out.append("    });")
            out.append("    r.part.count(\"auto_flush_threads\", %d);" % nthreads)
            out.append("    r.part.count(\"programs_with_threaded_phase\", 1);")
            out.append("    r.part.count(\"flush_storm_rounds\", %d);" % storm_rounds)
        # undeclared values
        if not self.auto_flush:
            e = "m"
            for li, (key, ei, vals) in enumerate(self.labels):
                declared = set(v for _, v in vals)
                probes = [x for x in ["__undeclared__", vals[0][0] + "_", vals[0][0].upper()] + [i for i, v in vals if i != v] if x not in declared]
                for p in probes[:3]:
                    out.append("    if %s.try_get(%s).is_some() { r.fail(%d, \"try_get-accepts-undeclared-value\", format!(\"level %d accepts {:?}\", %s)); }" % (e, rs_str(p), self.idx, li, rs_str(p)))
                    out.append("    r.try_get_probes += 1;")
                e += "." + vals[0][0]
        if is_local:
            if self.auto_flush and self.zero_interval:
                out.append("    // zero flush interval: every update already flushed through may_flush()")
            else:
                out.append("    m.flush();")
        # expected table
        out.append("    let expected: Vec<(Vec<(&str, &str)>, f64, u64)> = vec![")
        keys = [k for k, _, _ in self.labels]
        for tup, (s, c) in sorted(expected.items()):
            pairs = ", ".join("(%s, %s)" % (rs_str(k), rs_str(v)) for k, v in zip(keys, tup))
            out.append("        (vec![%s], %d.0, %d)," % (pairs, s, c))
        out.append("    ];")
        if getattr(self, "via_register", False):
            bounds = ("Some(vec![%s])" % ", ".join(repr(float(b)) for b in self.buckets)) if self.buckets else "None"
            out.append("    let fams: Vec<prometheus::proto::MetricFamily> = prometheus::gather().into_iter().filter(|f| f.name() == %s).collect();" % rs_str(self.reg_name))
            out.append("    r.part.count(\"programs_through_register_static_macro\", 1);")
            out.append("    crate::compare(r, %d, %s, fams, expected, %d, %s);" % (self.idx, rs_str(base), npaths, bounds))
        else:
            out.append("    crate::compare(r, %d, %s, vec.collect(), expected, %d, None);" % (self.idx, rs_str(base), npaths))
        out.append("}")
        return "\n".join(out)

    def describe(self):
        return {"index": self.idx, "macro": "make_auto_flush_static_metric" if self.auto_flush else "make_static_metric", "type": self.mtype, "built_through_register_static_macro": getattr(self, "via_register", False), "buckets": self.buckets,
                "labels": [{"key": k, "enum": (self.enums[ei][0] if ei is not None else None), "values": vals} for k, ei, vals in self.labels], "vector_label_order": self.perm}


def main():
    seed, count, out_dir = int(sys.argv[1]), int(sys.argv[2]), sys.argv[3]
    rng = random.Random(seed * 7919 + 19)
    os.makedirs(out_dir, exist_ok=True)
    for f in os.listdir(out_dir):
        if f.startswith("gen_") or f == "mod.rs" or f == "programs.json":
            os.remove(os.path.join(out_dir, f))
    mods, descr = [], []
    for i in range(count):
        auto = (i % 3 == 2)
        d = Decl(rng, i, auto)
        src = ["// generated by tools/gen_static.py seed=%d index=%d" % (seed, i), "#![allow(non_camel_case_types, unused_imports, dead_code, clippy::all)]", "use prometheus::core::Collector;", "use prometheus::*;",
               "use prometheus_static_metric::*;", "", d.decl_src(), "", d.driver_src(rng), ""]
        open(os.path.join(out_dir, "gen_%d.rs" % i), "w").write("\n".join(src))
        mods.append((i, auto))
        descr.append(d.describe())
    g = ["// generated module list"]
    for i, _ in mods:
        g.append("pub mod gen_%d;" % i)
    g.append("pub const PROGRAMS: &[(usize, bool, fn(&mut crate::Rep))] = &[")
    for i, auto in mods:
        g.append("    (%d, %s, gen_%d::run)," % (i, "true" if auto else "false", i))
    g.append("];")
    open(os.path.join(out_dir, "mod.rs"), "w").write("\n".join(g) + "\n")
    json.dump(descr, open(os.path.join(out_dir, "programs.json"), "w"))


if __name__ == "__main__":
    main()
