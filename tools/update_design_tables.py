#!/usr/bin/env python3
"""Regenerate the generated tables inside DESIGN.md (between BEGIN/END markers)."""
import json, os, re, subprocess, sys
ROOT = os.path.dirname(os.path.dirname(os.path.abspath(__file__)))

def seeded():
    out = ["### Seeded changes by sub-agents (kept under `seeded/`) and the check that catches each", "",
           "| id | what it changes (needs to manifest) | `./run.sh <property> quick` |", "|---|---|---|"]
    d = os.path.join(ROOT, "seeded")
    for name in sorted(os.listdir(d), key=lambda x: (x.split("-")[0], int(x.split("-")[1]))):
        mp = os.path.join(d, name, "meta.json")
        if not os.path.exists(mp):
            continue
        m = json.load(open(mp))
        chk = [(k, v) for k, v in m["checks"].items() if isinstance(v, dict)]
        res = "; ".join("%s by rule `%s`" % (v["verdict"], v["first_signature"].split(":")[0]) for k, v in chk) or "not run"
        what = m["summary"].replace("|", "/").replace("\n", " ")[:170]
        needs = m.get("needs_to_manifest", "").replace("|", "/").replace("\n", " ")[:170]
        out.append("| %s | %s — *%s* | %s |" % (name, what, needs, res))
    return "\n".join(out)

def mutants():
    path = os.path.join(ROOT, "mutants", "RESULTS.json")
    rows = json.load(open(path)) if os.path.exists(path) else []
    names = [m["name"] for m in json.load(open(os.path.join(ROOT, "mutants", "mutants.json")))]
    rows = [r for r in rows if r["mutant"] in names]
    rows.sort(key=lambda r: (r["property"], r["mutant"]))
    out = ["### Hand-written mutants (`tools/mutants.py suite`)", "", "| mutant | property | outcome of the quick check | first rule that fired | what the mutant does |", "|---|---|---|---|---|"]
    for r in rows:
        out.append("| %s | %s | %s | `%s` | %s |" % (r["mutant"], r["property"], r["verdict"], r["first_signature"].split(":")[0], r["note"].replace("|", "/")))
    return "\n".join(out)

def equivalents():
    d = os.path.join(ROOT, "equivalent")
    out = ["### Behaviour-preserving refactorings by sub-agents (kept under `equivalent/`): every listed quick check must stay silent", "",
           "| id | what it restructures | checks run (all silent unless noted) |", "|---|---|---|"]
    for name in sorted(os.listdir(d), key=lambda x: (x.split("-")[0], int(x.split("-")[1]))):
        m = json.load(open(os.path.join(d, name, "meta.json")))
        readme = open(os.path.join(d, name, "README.md")).read()
        title = next((l.strip("# ").strip() for l in readme.splitlines() if l.strip()), "")[:170].replace("|", "/")
        res = ", ".join("%s %s" % (k.split()[1], v["verdict"]) for k, v in m["checks"].items() if isinstance(v, dict)) or "not run"
        out.append("| %s | %s | %s |" % (name, title, res))
    return "\n".join(out)


def main():
    p = os.path.join(ROOT, "DESIGN.md")
    s = open(p).read()
    for tag, fn in (("SEEDED", seeded), ("MUTANTS", mutants), ("EQUIV", equivalents)):
        s = re.sub(r"<!-- BEGIN:%s -->.*?<!-- END:%s -->" % (tag, tag), lambda m: "<!-- BEGIN:%s -->\n%s\n<!-- END:%s -->" % (tag, fn(), tag), s, flags=re.S)
    open(p, "w").write(s)

if __name__ == "__main__":
    main()
