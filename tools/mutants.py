#!/usr/bin/env python3
"""Self-validation helper (not a registered check).

  tools/mutants.py list
  tools/mutants.py apply <name>      apply mutant to /repo working tree
  tools/mutants.py revert            git -C /repo checkout -- .
  tools/mutants.py run <name> -- <command...>   apply, run command, revert; prints exit code

Mutants are textual replacements listed in mutants/mutants.json:
  {"name": ..., "property": ..., "file": ..., "old": ..., "new": ..., "note": ...}
"""
import json, subprocess, sys, os, shutil
ROOT = os.path.dirname(os.path.dirname(os.path.abspath(__file__)))
REPO = "/repo"


def _touch_changed(repo, files=None):
    """cargo decides by mtime: make sure files changed by an apply / revert are seen as newer than the last build."""
    import time
    if files is None:
        out = subprocess.run(["git", "-C", repo, "diff", "--name-only"], capture_output=True, text=True).stdout
        files = [f for f in out.splitlines() if f.strip()]
    now = time.time() + 1
    for f in files:
        p = os.path.join(repo, f)
        if os.path.exists(p):
            os.utime(p, (now, now))
    return files


def _stash_evidence():
    """Checks rewrite evidence/<id>.json on every run; runs against a deliberately broken /repo must not
    leave their evidence behind (committed evidence has to come from the unchanged tree)."""
    import glob, tempfile
    d = tempfile.mkdtemp(prefix="evidence-stash-")
    for f in glob.glob(os.path.join(ROOT, "evidence", "C*.json")):
        shutil.copy(f, d)
    return d


def _restore_evidence(d):
    import glob
    for f in glob.glob(os.path.join(d, "C*.json")):
        shutil.copy(f, os.path.join(ROOT, "evidence"))
    shutil.rmtree(d, ignore_errors=True)

def load():
    return json.load(open(os.path.join(ROOT, "mutants", "mutants.json")))

def apply(name):
    ms = [m for m in load() if m["name"] == name]
    if not ms:
        sys.exit("no such mutant " + name)
    st = subprocess.run(["git", "-C", REPO, "status", "--porcelain", "--untracked-files=no"], capture_output=True, text=True).stdout
    if st.strip():
        sys.exit("/repo working tree is not clean:\n" + st)
    for m in ms:
        edits = m.get("edits") or [m]
        for e in edits:
            p = os.path.join(REPO, e["file"])
            s = open(p).read()
            if s.count(e["old"]) != 1:
                subprocess.run(["git", "-C", REPO, "checkout", "--", "."])
                sys.exit("mutant %s: pattern occurs %d times in %s" % (name, s.count(e["old"]), e["file"]))
            open(p, "w").write(s.replace(e["old"], e["new"]))
    _touch_changed(REPO)

def revert():
    files = _touch_changed(REPO)
    subprocess.run(["git", "-C", REPO, "checkout", "--", "."], check=True)
    _touch_changed(REPO, files)

def main():
    a = sys.argv[1:]
    if not a or a[0] == "list":
        for m in load():
            print("%-40s %-4s %s" % (m["name"], m["property"], m.get("note", "")))
    elif a[0] == "apply":
        apply(a[1])
    elif a[0] == "revert":
        revert()
    elif a[0] == "run":
        name = a[1]
        cmd = a[a.index("--") + 1:]
        apply(name)
        try:
            r = subprocess.run(cmd)
            print("MUTANT %s exit=%d" % (name, r.returncode))
        finally:
            revert()
    elif a[0] == "suite":
        # tools/mutants.py suite [name-prefix ...]: run every mutant's property check (quick) and tabulate
        import time
        only = a[1:]
        rows = []
        stash = _stash_evidence()
        for m in load():
            if only and not any(m["name"].startswith(o) for o in only):
                continue
            equiv = "EQUIVALENT" in m.get("note", "")
            props = [m["property"]] if m["property"] != "none" else ["C02", "C03"]
            apply(m["name"])
            t0 = time.time()
            try:
                outs = []
                for prop in props:
                    r = subprocess.run([os.path.join(ROOT, "run.sh"), prop, "quick"], capture_output=True, text=True)
                    sig = next((l.strip()[2:] for l in r.stdout.splitlines() if l.startswith("  # ")), "")
                    outs.append((prop, r.returncode, sig))
            finally:
                revert()
            for prop, rc, sig in outs:
                verdict = ("silent (expected: equivalent)" if rc == 0 else "ALARM ON EQUIVALENT CHANGE") if equiv else ("caught" if rc == 1 else ("MISSED" if rc == 0 else "inconclusive rc=%d" % rc))
                rows.append(dict(mutant=m["name"], property=prop, exit=rc, verdict=verdict, first_signature=sig[:160], note=m.get("note", ""), secs=round(time.time() - t0, 1)))
                print("%-42s %-4s %-32s %s" % (m["name"], prop, verdict, sig[:90]), flush=True)
        _restore_evidence(stash)
        path = os.path.join(ROOT, "mutants", "RESULTS.json")
        old = json.load(open(path)) if os.path.exists(path) else []
        old = [o for o in old if not any(o["mutant"] == r["mutant"] and o["property"] == r["property"] for r in rows)]
        json.dump(old + rows, open(path, "w"), indent=1)
    else:
        sys.exit(__doc__)

if __name__ == "__main__":
    main()
