//! Sequential reference-model / differential monitors (E4) and exposition
//! invariants (E5).
//!
//!   seq <property> --seed S --first N --cases N [--thorough] [--verbose] --out <part.json>
mod ctx;
mod expo;
mod fam;
mod p_desc;
mod p_encode;
mod p_fallible;
mod p_gather;
mod p_hist;
mod p_local;
mod p_macros;
mod p_names;
mod p_timer;
mod p_registry;
mod p_vec;
mod spec;

use ctx::Ctx;
use vcore::report::{arg_map, Part};

fn run_case(cx: &mut Ctx) {
    match cx.prop.as_str() {
        "C04" | "C13" => {
            p_encode::run_case(cx);
            // feeders: gathers of library-built worlds go through the same round-trip oracle
            cx.feeder = true;
            p_gather::run_case(cx, false);
            cx.feeder = false;
        }
        "C07" => p_gather::run_case(cx, false),
        "C05" => p_vec::run_case(cx),
        "C15" => p_desc::run_case(cx),
        "C08" => p_hist::run_case(cx),
        "C06" => p_registry::run_case(cx),
        "C12" => p_local::run_case(cx),
        "C20" => p_macros::run_case(cx),
        "C18" => p_timer::run_case(cx),
        "C17" => p_fallible::run_case(cx),
        "C09" => {
            p_names::run_case(cx);
            cx.feeder = true;
            p_gather::run_case(cx, false);
            cx.feeder = false;
        }
        "C14" => {
            p_gather::run_case(cx, true);
            p_gather::run_case(cx, false);
        }
        other => {
            eprintln!("unknown property {}", other);
            std::process::exit(2);
        }
    }
}

fn main() {
    let args: Vec<String> = std::env::args().skip(1).collect();
    if args.is_empty() {
        eprintln!("usage: seq <property> --seed S --first N --cases N --out file");
        std::process::exit(2);
    }
    let prop = args[0].clone();
    let m = arg_map(&args[1..]);
    let seed: u64 = m.get("seed").and_then(|s| s.parse().ok()).unwrap_or(1);
    let first: u64 = m.get("first").and_then(|s| s.parse().ok()).unwrap_or(0);
    let cases: u64 = m.get("cases").and_then(|s| s.parse().ok()).unwrap_or(100);
    let rule = "one case = one seeded scenario / input batch driven through the real API with the monitors attached; distinct = distinct generated inputs (hash of the scenario's defining strings, values and structure)";
    let mut cx = Ctx {
        prop: prop.clone(),
        seed,
        case: 0,
        thorough: m.contains_key("thorough"),
        verbose: m.contains_key("verbose"),
        part: Part::new(&prop, "seq", seed, rule),
        feeder: false,
        mixed_kind_names: Vec::new(),
        case_tag: 0,
    };
    // remember where the last panic came from: a panic inside the library is a finding, one inside the harness is not
    static LAST_PANIC: std::sync::Mutex<Option<(String, u32, String)>> = std::sync::Mutex::new(None);
    std::panic::set_hook(Box::new(|info| {
        let (file, line) = info.location().map(|l| (l.file().to_string(), l.line())).unwrap_or_default();
        let msg = info.payload().downcast_ref::<&str>().map(|s| s.to_string()).or_else(|| info.payload().downcast_ref::<String>().cloned()).unwrap_or_default();
        *LAST_PANIC.lock().unwrap_or_else(|e| e.into_inner()) = Some((file, line, msg));
    }));
    for case in first..first + cases {
        cx.case = case;
        let r = std::panic::catch_unwind(std::panic::AssertUnwindSafe(|| run_case(&mut cx)));
        if r.is_err() {
            let (file, line, msg) = LAST_PANIC.lock().unwrap_or_else(|e| e.into_inner()).clone().unwrap_or_default();
            if file.starts_with("/repo/") {
                let site = file.trim_start_matches("/repo/").to_string();
                cx.violation("library-panicked", &site, format!("the library panicked at {}:{} while the monitors drove it with generated input: {}", file, line, msg), vcore::json::Json::Null);
            } else {
                cx.part.inconclusive = Some(format!("harness panic at {}:{}: {}", file, line, msg));
                break;
            }
        }
    }
    if let Some(out) = m.get("out") {
        cx.part.write(out);
    } else {
        println!("{}", cx.part.to_json().to_string());
    }
    if cx.part.violated() {
        for v in &cx.part.violations {
            eprintln!("violation {}: {}", v.signature, v.explanation);
        }
        std::process::exit(1);
    }
}
