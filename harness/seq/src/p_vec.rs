//! C05 — a metric vector keeps exactly one child per distinct label-value tuple.
use std::collections::hash_map::RandomState;
use std::collections::{BTreeMap, HashMap};
use std::hash::BuildHasherDefault;

use prometheus::core::{Collector, MetricVec, MetricVecBuilder};
use prometheus::proto::MetricFamily;
use prometheus::{CounterVec, GaugeVec, HistogramOpts, HistogramVec, IntCounterVec, IntGaugeVec, Opts};
use vcore::digits::{decode_f64, mask_to_vec, unit_f64, unit_u64};
use vcore::jobj;
use vcore::json::Json;
use vcore::pools::{self, SHIFT_FAMILIES, VALID_LABEL_NAMES};
use vcore::prng::Rng;

use crate::ctx::{catch, Ctx};
use crate::expo::check_exposition;

#[derive(Clone, Copy, Debug, PartialEq, Eq)]
enum VK {
    Counter,
    IntCounter,
    Gauge,
    IntGauge,
    Histogram,
    LocalCounter,
    LocalIntCounter,
    LocalHistogram,
}

enum V {
    C(CounterVec),
    IC(IntCounterVec),
    G(GaugeVec),
    IG(IntGaugeVec),
    H(HistogramVec),
}

#[derive(Clone, Copy, Debug, PartialEq, Eq)]
enum Form {
    Values,
    TryValues,
    Map,
    TryMap,
}

/// A second hasher type for the map form.
#[derive(Default)]
struct XorHasher(u64);
impl std::hash::Hasher for XorHasher {
    fn finish(&self) -> u64 {
        self.0
    }
    fn write(&mut self, b: &[u8]) {
        for x in b {
            self.0 = (self.0 ^ *x as u64).wrapping_mul(0x100000001b3).rotate_left(5);
        }
    }
}

fn request<T: MetricVecBuilder>(v: &MetricVec<T>, names: &[String], vals: &[String], form: Form, rng: &mut Rng) -> Result<T::M, String> {
    match form {
        Form::Values => catch(|| v.with_label_values(vals)),
        Form::TryValues => v.get_metric_with_label_values(vals).map_err(|e| e.to_string()),
        Form::Map | Form::TryMap => {
            let mut order: Vec<usize> = (0..names.len()).collect();
            rng.shuffle(&mut order);
            if rng.chance(1, 2) {
                let mut m: HashMap<&str, &str, RandomState> = HashMap::with_hasher(RandomState::new());
                for i in order {
                    m.insert(names[i].as_str(), vals[i].as_str());
                }
                if form == Form::Map {
                    catch(|| v.with(&m))
                } else {
                    v.get_metric_with(&m).map_err(|e| e.to_string())
                }
            } else {
                let mut m: HashMap<&str, String, BuildHasherDefault<XorHasher>> = HashMap::default();
                for i in order {
                    m.insert(names[i].as_str(), vals[i].clone());
                }
                if form == Form::Map {
                    catch(|| v.with(&m))
                } else {
                    v.get_metric_with(&m).map_err(|e| e.to_string())
                }
            }
        }
    }
}

impl V {
    /// request a child and add 4^digit through the returned handle; returns the value read *before* the update
    fn request_and_update(&self, names: &[String], vals: &[String], form: Form, digit: usize, rng: &mut Rng) -> Result<f64, String> {
        match self {
            V::C(v) => request(v, names, vals, form, rng).map(|c| {
                let before = c.get();
                c.inc_by(unit_f64(digit));
                before
            }),
            V::IC(v) => request(v, names, vals, form, rng).map(|c| {
                let before = c.get() as f64;
                c.inc_by(unit_u64(digit));
                before
            }),
            V::G(v) => request(v, names, vals, form, rng).map(|c| {
                let before = c.get();
                c.add(unit_f64(digit));
                before
            }),
            V::IG(v) => request(v, names, vals, form, rng).map(|c| {
                let before = c.get() as f64;
                c.add(unit_u64(digit) as i64);
                before
            }),
            V::H(v) => request(v, names, vals, form, rng).map(|c| {
                let before = c.get_sample_sum();
                c.observe(unit_f64(digit));
                before
            }),
        }
    }
    fn collect(&self) -> Vec<MetricFamily> {
        match self {
            V::C(v) => v.collect(),
            V::IC(v) => v.collect(),
            V::G(v) => v.collect(),
            V::IG(v) => v.collect(),
            V::H(v) => v.collect(),
        }
    }
    fn bad_request(&self, names: &[String], vals: &[String], how: u64, rng: &mut Rng) -> Result<(), String> {
        // how: 0 too few values, 1 too many values, 2 map with a missing key, 3 map with an extra key, 4 map with a wrong key
        let mut m: HashMap<&str, &str> = HashMap::new();
        for (n, v) in names.iter().zip(vals.iter()) {
            m.insert(n.as_str(), v.as_str());
        }
        let mut short: Vec<String> = vals.to_vec();
        match how {
            0 => {
                short.pop();
            }
            1 => short.push(pools::any_string(rng)),
            2 => {
                // any position: a lookup that has already consumed some values when it meets the missing name
                m.remove(names[rng.usize_below(names.len())].as_str());
            }
            3 => {
                m.insert("extra_label", "x");
            }
            _ => {
                let at = rng.usize_below(names.len());
                m.remove(names[at].as_str());
                m.insert("wrong_name", vals[at].as_str());
            }
        }
        macro_rules! go {
            ($v:expr) => {
                if how < 2 {
                    $v.get_metric_with_label_values(&short).map(|_| ()).map_err(|e| e.to_string())
                } else {
                    $v.get_metric_with(&m).map(|_| ()).map_err(|e| e.to_string())
                }
            };
        }
        match self {
            V::C(v) => go!(v),
            V::IC(v) => go!(v),
            V::G(v) => go!(v),
            V::IG(v) => go!(v),
            V::H(v) => go!(v),
        }
    }
}

/// Read the collection as tuple -> (mask, labels), tuple = values in declaration order.
fn read_collection(kind: VK, mfs: &[MetricFamily], names: &[String], consts: &[(String, String)]) -> Result<BTreeMap<Vec<String>, u64>, String> {
    let mut out = BTreeMap::new();
    for mf in mfs {
        for m in mf.get_metric() {
            let labels: Vec<(String, String)> = m.get_label().iter().map(|l| (l.name().to_string(), l.value().to_string())).collect();
            // exactly declared names + const labels, sorted by name
            let mut want_names: Vec<&String> = names.iter().chain(consts.iter().map(|c| &c.0)).collect();
            want_names.sort();
            let got_names: Vec<&String> = labels.iter().map(|l| &l.0).collect();
            if got_names != want_names {
                return Err(format!("child exposes label names {:?}, declared {:?}", got_names, want_names));
            }
            for (cn, cv) in consts {
                if !labels.iter().any(|l| &l.0 == cn && &l.1 == cv) {
                    return Err(format!("child lacks constant label {}={:?}: {:?}", cn, cv, labels));
                }
            }
            let tuple: Vec<String> = names.iter().map(|n| labels.iter().find(|l| &l.0 == n).unwrap().1.clone()).collect();
            let value = match kind {
                VK::Counter | VK::IntCounter | VK::LocalCounter | VK::LocalIntCounter => m.get_counter().value(),
                VK::Gauge | VK::IntGauge => m.get_gauge().value(),
                VK::Histogram | VK::LocalHistogram => {
                    let h = m.get_histogram();
                    if decode_f64(h.get_sample_sum()).map(|d| d.count() as u64) != Some(h.get_sample_count()) {
                        return Err(format!("child {:?}: histogram sum {:?} and count {} disagree", tuple, h.get_sample_sum(), h.get_sample_count()));
                    }
                    h.get_sample_sum()
                }
            };
            let d = decode_f64(value).filter(|d| d.overflow().is_none()).ok_or_else(|| format!("child {:?} has value {:?}: not a set of distinct updates", tuple, value))?;
            if out.insert(tuple.clone(), d.mask()).is_some() {
                return Err(format!("tuple {:?} exported twice", tuple));
            }
        }
    }
    Ok(out)
}

fn gen_tuple(rng: &mut Rng, arity: usize, earlier: &[Vec<String>]) -> Vec<String> {
    // mostly: boundary-shifted variants of each other, or repeats of earlier tuples
    if !earlier.is_empty() && rng.chance(1, 4) {
        return rng.pick(earlier).clone();
    }
    let mut t: Vec<String> = Vec::new();
    if arity >= 2 && rng.chance(1, 12) {
        // "length twins": two tuples whose values, each written behind a one-byte (or wrapped) length, give the
        // same bytes - (a, Y*255 A Z*65) and (aA Y*255, Z*65): 321 and 257 are 65 ('A') and 1 modulo 256. A key
        // built from length-prefixed values instead of separated ones must still tell them apart; the second
        // twin is drawn when the first is already among the earlier tuples.
        let y: String = std::iter::repeat('y').take(255).collect();
        let z: String = std::iter::repeat('z').take(65).collect();
        let first = vec!["a".to_string(), format!("{}A{}", y, z)];
        let second = vec![format!("aA{}", y), z.clone()];
        let at = 0;
        let have_first = earlier.iter().any(|e| e.len() >= 2 && e[at] == first[0] && e[at + 1] == first[1]);
        let pair = if have_first { second } else { first };
        for i in 0..arity {
            t.push(if i < 2 { pair[i].clone() } else { String::new() });
        }
        return t;
    }
    if rng.chance(1, 6) {
        // long values of equal length that differ only somewhere in the middle (or at the ends)
        for _ in 0..arity {
            let len = *rng.pick(&[65usize, 80, 129, 300]);
            let mut v: Vec<u8> = (0..len).map(|i| b'a' + (i % 7) as u8).collect();
            let pos = match rng.below(4) {
                0 => 0,
                1 => len - 1,
                _ => len / 2 + rng.usize_below(3),
            };
            v[pos] = b'A' + rng.below(3) as u8;
            t.push(String::from_utf8(v).unwrap());
        }
        return t;
    }
    if arity >= 2 && rng.chance(3, 5) {
        let fam = rng.pick(SHIFT_FAMILIES);
        let at = rng.usize_below(arity - 1);
        for i in 0..arity {
            if i == at {
                t.push(fam[0].to_string());
            } else if i == at + 1 {
                t.push(fam[1].to_string());
            } else {
                t.push(rng.pick(&["", "a", "b"]).to_string());
            }
        }
    } else {
        for _ in 0..arity {
            t.push(pools::any_string(rng));
        }
    }
    t
}

/// Many children in one vector (hash-map growth, hundreds to thousands of tuples): child i is updated once
/// by i+1, so the collection must map every requested tuple to exactly its own amount.
fn many_children(cx: &mut Ctx, rng: &mut Rng) {
    let n = 200 + rng.usize_below(if cx.thorough { 5000 } else { 1500 });
    let v = IntCounterVec::new(Opts::new("c05_many", "help"), &["a", "b"]).unwrap();
    let mut want: BTreeMap<Vec<String>, u64> = BTreeMap::new();
    for i in 0..n {
        // pairs from boundary-shifted families: (k{i}, x) / (k, {i}x) ...
        let t = match i % 4 {
            0 => vec![format!("k{}", i), "x".to_string()],
            1 => vec!["k".to_string(), format!("{}x", i)],
            2 => vec![format!("k{}x", i), String::new()],
            _ => vec![String::new(), format!("k{}x", i)],
        };
        let c = if i % 3 == 0 {
            let mut m: HashMap<&str, &str> = HashMap::new();
            m.insert("b", t[1].as_str());
            m.insert("a", t[0].as_str());
            v.get_metric_with(&m)
        } else {
            v.get_metric_with_label_values(&t)
        };
        match c {
            Ok(c) => c.inc_by(i as u64 + 1),
            Err(e) => {
                cx.violation("valid-request-refused", "IntCounter/many-children", format!("{:?}: {}", t, e), jobj! {"children" => n});
                return;
            }
        }
        *want.entry(t).or_insert(0) += i as u64 + 1;
    }
    cx.part.evaluations += n as u64;
    cx.part.count("many_children_vectors", 1);
    let mut got: BTreeMap<Vec<String>, u64> = BTreeMap::new();
    for m in v.collect()[0].get_metric() {
        let l = m.get_label();
        let t = vec![l[0].value().to_string(), l[1].value().to_string()];
        if got.insert(t.clone(), m.get_counter().value() as u64).is_some() {
            cx.violation("collection-malformed", "IntCounter/many-children", format!("tuple {:?} exported twice among {} children", t, n), jobj! {"children" => n});
            return;
        }
    }
    if got != want {
        let diff = want.iter().find(|(t, a)| got.get(*t) != Some(a)).map(|(t, a)| format!("tuple {:?}: expected {}, collection has {:?}", t, a, got.get(t)));
        cx.violation("children-do-not-match-requested-tuples", "IntCounter/many-children", format!("{} tuples requested, {} children exported; {}", want.len(), got.len(), diff.unwrap_or_default()), jobj! {"children" => n});
    }
    cx.distinct(|h| {
        h.str("many");
        h.u64(n as u64);
    });
}

pub fn run_case(cx: &mut Ctx) {
    let mut rng = Rng::derive(cx.seed, cx.case.wrapping_mul(2).wrapping_add(0xC05));
    if cx.case % 50 == 11 {
        many_children(cx, &mut rng);
        return;
    }
    let kind = *rng.pick(&[VK::Counter, VK::IntCounter, VK::Gauge, VK::IntGauge, VK::Histogram, VK::LocalCounter, VK::LocalIntCounter, VK::LocalHistogram]);
    let mut ln: Vec<&str> = VALID_LABEL_NAMES.iter().copied().collect();
    rng.shuffle(&mut ln);
    // mostly 1-4 labels; sometimes a wide vector (9-11 labels, declared in shuffled, i.e. non-alphabetical, order)
    let arity = if rng.chance(1, 12) { 9 + rng.usize_below(3) } else { 1 + rng.usize_below(4) };
    let names: Vec<String> = ln[..arity].iter().map(|s| s.to_string()).collect();
    let nconst = rng.usize_below(3).min(ln.len() - arity);
    let consts: Vec<(String, String)> = ln[arity..arity + nconst].iter().map(|s| (s.to_string(), pools::any_string(&mut rng))).collect();
    let name_refs: Vec<&str> = names.iter().map(|s| s.as_str()).collect();
    let mut cl = HashMap::new();
    for (k, v) in &consts {
        cl.insert(k.clone(), v.clone());
    }
    let opts = Opts::new("c05_vec", "help").const_labels(cl.clone());
    let v = match kind {
        VK::Counter | VK::LocalCounter => V::C(CounterVec::new(opts, &name_refs).unwrap()),
        VK::IntCounter | VK::LocalIntCounter => V::IC(IntCounterVec::new(opts, &name_refs).unwrap()),
        VK::Gauge => V::G(GaugeVec::new(opts, &name_refs).unwrap()),
        VK::IntGauge => V::IG(IntGaugeVec::new(opts, &name_refs).unwrap()),
        VK::Histogram | VK::LocalHistogram => V::H(HistogramVec::new(HistogramOpts::new("c05_vec", "help").const_labels(cl).buckets(vec![unit_f64(5), unit_f64(12)]), &name_refs).unwrap()),
    };
    let mut model: BTreeMap<Vec<String>, u64> = BTreeMap::new();
    let mut log: Vec<Json> = Vec::new();
    let mut earlier: Vec<Vec<String>> = Vec::new();
    let nreq = 6 + rng.usize_below(18);
    let site = format!("{:?}", kind);
    // local variants keep their own handle cache keyed by the same hash
    let mut lc = match (&v, kind) {
        (V::C(x), VK::LocalCounter) => Some(x.local()),
        _ => None,
    };
    let mut lic = match (&v, kind) {
        (V::IC(x), VK::LocalIntCounter) => Some(x.local()),
        _ => None,
    };
    let mut lh = match (&v, kind) {
        (V::H(x), VK::LocalHistogram) => Some(x.local()),
        _ => None,
    };
    // the request right after a refused one goes to a child that already exists (whatever the refused
    // lookup left behind must not send it elsewhere)
    let mut repeat_next: Option<Vec<String>> = None;
    for digit in 0..nreq {
        let tuple = match repeat_next.take() {
            Some(t) => t,
            None => gen_tuple(&mut rng, arity, &earlier),
        };
        earlier.push(tuple.clone());
        let form = *rng.pick(&[Form::Values, Form::TryValues, Form::Map, Form::TryMap]);
        cx.part.evaluations += 1;
        let tr: Vec<&str> = tuple.iter().map(|s| s.as_str()).collect();
        let before: Result<f64, String> = if let Some(l) = lc.as_mut() {
            catch(|| {
                let h = l.with_label_values(&tr);
                let b = h.get();
                h.inc_by(unit_f64(digit));
                b
            })
            .map(|b| {
                l.flush();
                b
            })
        } else if let Some(l) = lic.as_mut() {
            catch(|| {
                let h = l.with_label_values(&tr);
                let b = h.get() as f64;
                h.inc_by(unit_u64(digit));
                b
            })
            .map(|b| {
                l.flush();
                b
            })
        } else if let Some(l) = lh.as_mut() {
            catch(|| {
                let h = l.with_label_values(&tr);
                let b = h.get_sample_sum();
                h.observe(unit_f64(digit));
                b
            })
            .map(|b| {
                l.flush();
                b
            })
        } else {
            v.request_and_update(&names, &tuple, form, digit, &mut rng)
        };
        log.push(Json::Str(format!("{:?} {:?} += 4^{}", form, tuple, digit)));
        let detail = || jobj! {"kind" => format!("{:?}", kind), "label_names" => names.clone(), "const_labels" => format!("{:?}", consts), "requests" => Json::Arr(log.clone())};
        let is_local = lc.is_some() || lic.is_some() || lh.is_some();
        match before {
            Err(e) => {
                cx.violation("valid-request-refused", &site, format!("request {:?} with {} values for {} labels failed: {}", tuple, tuple.len(), arity, e), detail());
                return;
            }
            Ok(b) => {
                let expect_before = if is_local { 0.0 } else { mask_to_vec(*model.get(&tuple).unwrap_or(&0)).into_iter().map(unit_f64).fold(0.0, |a, x| a + x) };
                if b != expect_before {
                    cx.violation(
                        "handle-does-not-start-from-the-childs-value",
                        &site,
                        format!("handle for {:?} read {:?} before the update; the child of that tuple holds {:?} (a new child starts from zero)", tuple, b, expect_before),
                        detail(),
                    );
                    return;
                }
            }
        }
        *model.entry(tuple.clone()).or_insert(0) |= 1 << digit;
        let mfs = v.collect();
        check_exposition(cx, &mfs, false, "vec-collect");
        match read_collection(kind, &mfs, &names, &consts) {
            Err(e) => {
                cx.violation("collection-malformed", &site, e, detail());
                return;
            }
            Ok(got) => {
                if got != model {
                    let mut why = String::new();
                    for (t, m) in &model {
                        match got.get(t) {
                            None => why = format!("tuple {:?} has no child of its own", t),
                            Some(g) if g != m => why = format!("child of {:?} holds updates {:?}, requests for that tuple were {:?}", t, mask_to_vec(*g), mask_to_vec(*m)),
                            _ => {}
                        }
                    }
                    for t in got.keys() {
                        if !model.contains_key(t) {
                            why = format!("child {:?} was never requested", t);
                        }
                    }
                    cx.violation("children-do-not-match-requested-tuples", &site, why, detail());
                    return;
                }
            }
        }
        // invalid requests return an error and create nothing
        if !is_local && rng.chance(1, 4) {
            let how = rng.below(5);
            if arity == 0 && how != 1 && how != 3 {
                continue;
            }
            let r = v.bad_request(&names, &tuple, how, &mut rng);
            cx.part.count("invalid_requests", 1);
            let after = read_collection(kind, &v.collect(), &names, &consts);
            if r.is_ok() {
                cx.violation("invalid-request-accepted", &site, format!("malformed request (kind {}) on tuple {:?} was accepted", how, tuple), detail());
                return;
            }
            if after.as_ref().ok() != Some(&model) {
                cx.violation("invalid-request-changed-the-vector", &site, format!("malformed request (kind {}) altered the collection", how), detail());
                return;
            }
            if rng.chance(2, 3) {
                repeat_next = Some(tuple.clone());
            }
        }
    }
    cx.part.count("distinct_children", model.len() as u64);
    cx.distinct(|h| {
        h.u64(kind as u64);
        for t in &earlier {
            for s in t {
                h.str(s);
            }
        }
    });
    if cx.part.samples.len() < 2 {
        let j = jobj! {"kind" => format!("{:?}", kind), "label_names" => names.clone(), "requests" => Json::Arr(log)};
        cx.part.sample(2, j);
    }
}
