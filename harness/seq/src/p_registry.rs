//! C06 — registry admission is exact and a failed registration leaves no trace.
//!
//! Model monitor: expected outcome of every register/unregister from the statement.
//! Twin monitor: registry B receives the same history with the calls that failed on
//! registry A left out ("as if the call had never been made"); every call issued to
//! both must have the same outcome, every gather must be equal, and a final probe
//! registers every template on both.
use std::collections::{BTreeMap, BTreeSet, HashMap};
use std::sync::Arc;

use prometheus::core::{Collector, Desc};
use prometheus::proto::MetricFamily;
use prometheus::{Counter, CounterVec, Error, Gauge, Histogram, HistogramOpts, Opts, Registry};
use vcore::jobj;
use vcore::json::Json;
use vcore::prng::Rng;

use crate::ctx::{catch, Ctx};
use crate::expo::check_exposition;
use crate::fam::{extract_all, families_json};
use crate::p_gather::mf_equal;

/// descriptor identity as the statement defines it: fully-qualified name and the constant-label
/// *values* taken in label-name order (label names are not part of it)
type Key = (String, Vec<String>);
type Dims = (String, BTreeSet<String>, BTreeSet<String>);

#[derive(Clone)]
struct Part1 {
    name: String,
    help: String,
    consts: Vec<(String, String)>,
    vars: Vec<String>,
    kind: u8, // 0 counter, 1 gauge, 2 histogram, 3 counter vec
}

impl Part1 {
    fn key(&self) -> Key {
        let mut c = self.consts.clone();
        c.sort();
        (self.name.clone(), c.into_iter().map(|p| p.1).collect())
    }
    fn dims(&self) -> Dims {
        (self.help.clone(), self.consts.iter().map(|c| c.0.clone()).collect(), self.vars.iter().cloned().collect())
    }
    fn build(&self) -> Box<dyn Collector> {
        let mut cl = HashMap::new();
        for (k, v) in &self.consts {
            cl.insert(k.clone(), v.clone());
        }
        let opts = Opts::new(self.name.clone(), self.help.clone()).const_labels(cl.clone());
        match self.kind {
            0 => {
                let c = Counter::with_opts(opts).unwrap();
                c.inc_by(1.0);
                Box::new(c)
            }
            1 => {
                let g = Gauge::with_opts(opts).unwrap();
                g.set(2.0);
                Box::new(g)
            }
            2 => {
                let h = Histogram::with_opts(HistogramOpts::from(opts)).unwrap();
                h.observe(0.3);
                Box::new(h)
            }
            _ => {
                let names: Vec<&str> = self.vars.iter().map(|s| s.as_str()).collect();
                let v = CounterVec::new(opts, &names).unwrap();
                let vals: Vec<&str> = names.iter().map(|_| "x").collect();
                v.with_label_values(&vals).inc();
                Box::new(v)
            }
        }
    }
}

/// A collector with any number of descriptors, made of library metrics.
#[derive(Clone)]
struct Template {
    parts: Vec<Part1>,
    inner: Arc<Vec<Box<dyn Collector>>>,
}

struct Multi {
    inner: Arc<Vec<Box<dyn Collector>>>,
}

impl Collector for Multi {
    fn desc(&self) -> Vec<&Desc> {
        self.inner.iter().flat_map(|c| c.desc()).collect()
    }
    fn collect(&self) -> Vec<MetricFamily> {
        self.inner.iter().flat_map(|c| c.collect()).collect()
    }
}

impl Template {
    fn new(parts: Vec<Part1>) -> Template {
        let inner = Arc::new(parts.iter().map(|p| p.build()).collect::<Vec<_>>());
        Template { parts, inner }
    }
    fn boxed(&self) -> Box<dyn Collector> {
        Box::new(Multi { inner: self.inner.clone() })
    }
    /// the same collector described again from scratch (fresh label maps, fresh hash states)
    fn rebuilt(&self) -> Template {
        Template::new(self.parts.clone())
    }
    fn keys(&self) -> Vec<Key> {
        self.parts.iter().map(|p| p.key()).collect()
    }
    fn key_set(&self) -> BTreeSet<Key> {
        self.keys().into_iter().collect()
    }
    /// duplicates or contradicting dimensions among its own descriptors: the statement is silent
    fn self_inconsistent(&self) -> bool {
        let ks = self.keys();
        if ks.iter().collect::<BTreeSet<_>>().len() != ks.len() {
            return true;
        }
        for a in &self.parts {
            for b in &self.parts {
                if a.name == b.name && a.dims() != b.dims() {
                    return true;
                }
            }
        }
        false
    }
    fn describe(&self) -> String {
        self.parts.iter().map(|p| format!("{}{{{}}}[{}] help={:?}", p.name, p.consts.iter().map(|c| format!("{}={}", c.0, c.1)).collect::<Vec<_>>().join(","), p.vars.join(","), p.help)).collect::<Vec<_>>().join(" + ")
    }
}

fn gen_part(rng: &mut Rng, names: u64) -> Part1 {
    let name = format!("n{}", 1 + rng.below(names));
    let help = format!("help {} {}", name, rng.below(2));
    let consts = match rng.below(7) {
        0 => vec![],
        1 => vec![("a".to_string(), "1".to_string())],
        2 => vec![("a".to_string(), "2".to_string())],
        3 => vec![("a".to_string(), "1".to_string()), ("b".to_string(), "1".to_string())],
        // same values attached to the two names the other way round: different descriptors
        4 => vec![("a".to_string(), "1".to_string()), ("b".to_string(), "2".to_string())],
        5 => vec![("b".to_string(), "1".to_string()), ("a".to_string(), "2".to_string())],
        _ => vec![("b".to_string(), "1".to_string())],
    };
    // one metric type per name: mixed kinds under one name are C14's subject, not C06's
    let kind: u8 = match name[1..].parse::<u64>().unwrap_or(0) % 3 {
        1 => if rng.chance(1, 2) { 3 } else { 0 },
        2 => 1,
        _ => 2,
    };
    let vars = if kind == 3 { vec![rng.pick(&["v", "w"]).to_string()] } else { vec![] };
    Part1 { name, help, consts, vars, kind }
}

#[derive(Default)]
struct ModelReg {
    registered: Vec<BTreeSet<Key>>,
    dims_by_name: BTreeMap<String, Dims>,
}

#[derive(Debug, PartialEq, Eq, Clone, Copy)]
enum Expect {
    Ok,
    AlreadyReg,
    AnyError,
    NotJudged,
}

impl ModelReg {
    fn expect_register(&self, t: &Template) -> Expect {
        if t.self_inconsistent() {
            return Expect::NotJudged;
        }
        let ks = t.key_set();
        let equal_desc = ks.iter().any(|k| self.registered.iter().any(|r| r.contains(k)));
        let same_collector = self.registered.iter().any(|r| *r == ks);
        let dim_conflict = t.parts.iter().any(|p| self.dims_by_name.get(&p.name).map(|d| *d != p.dims()).unwrap_or(false));
        if (equal_desc || same_collector) && !dim_conflict {
            Expect::AlreadyReg
        } else if equal_desc || same_collector || dim_conflict {
            Expect::AnyError
        } else {
            Expect::Ok
        }
    }
    fn apply_register(&mut self, t: &Template) {
        self.registered.push(t.key_set());
        for p in &t.parts {
            self.dims_by_name.insert(p.name.clone(), p.dims());
        }
    }
    fn expect_unregister(&self, t: &Template) -> bool {
        let ks = t.key_set();
        self.registered.iter().any(|r| *r == ks)
    }
    fn apply_unregister(&mut self, t: &Template) {
        let ks = t.key_set();
        if let Some(i) = self.registered.iter().position(|r| *r == ks) {
            self.registered.remove(i);
        }
    }
    fn exported_keys(&self) -> BTreeSet<Key> {
        self.registered.iter().flat_map(|r| r.iter().cloned()).collect()
    }
}

fn outcome(r: &Result<prometheus::Result<()>, String>) -> String {
    match r {
        Err(p) => format!("panic: {}", p),
        Ok(Ok(())) => "Ok".into(),
        Ok(Err(Error::AlreadyReg)) => "AlreadyReg".into(),
        Ok(Err(_)) => "Err".into(),
    }
}

/// Keys of the samples a gather exposes (constant labels only; variable labels are not part of the key).
fn gathered_keys(mfs: &[MetricFamily], templates: &[Template]) -> BTreeSet<Key> {
    let mut out = BTreeSet::new();
    for mf in mfs {
        for m in mf.get_metric() {
            let labels: Vec<(String, String)> = m.get_label().iter().map(|l| (l.name().to_string(), l.value().to_string())).collect();
            // find the template part it belongs to
            for t in templates {
                for p in &t.parts {
                    if p.name == mf.name() {
                        let mut want: Vec<(String, String)> = p.consts.clone();
                        for v in &p.vars {
                            want.push((v.clone(), "x".to_string()));
                        }
                        want.sort();
                        if want == labels {
                            out.insert(p.key());
                        }
                        let _ = &labels;
                    }
                }
            }
        }
    }
    out
}

pub fn run_case(cx: &mut Ctx) {
    let mut rng = Rng::derive(cx.seed, cx.case.wrapping_mul(2).wrapping_add(0xC06));
    // one history in thirty is a bulk one: hundreds of collectors over hundreds of names (map growth, many ids)
    // (not under the interpreter: a bulk history is hours of Miri time)
    let bulk = cx.case % 30 == 5 && !cfg!(miri);
    let names: u64 = if bulk { 300 } else { 3 };
    let ntemplates = if bulk { 150 + rng.usize_below(250) } else { 6 + rng.usize_below(8) };
    let mut templates: Vec<Template> = Vec::new();
    templates.push(Template::new(vec![])); // a collector without descriptors
    for _ in 0..ntemplates {
        let nparts = match rng.below(5) {
            0 | 1 => 1,
            2 | 3 => 2,
            _ => 3,
        };
        templates.push(Template::new((0..nparts).map(|_| gen_part(&mut rng, names)).collect()));
    }
    let a = Registry::new();
    let b = Registry::new();
    let mut model = ModelReg::default();
    let mut log: Vec<Json> = Vec::new();
    let nops = if bulk { 500 + rng.usize_below(500) } else { 20 + rng.usize_below(if cx.thorough { 180 } else { 60 }) };
    if bulk {
        cx.part.count("bulk_histories", 1);
    }
    let detail = |log: &Vec<Json>, templates: &Vec<Template>| jobj! {"templates" => templates.iter().map(|t| t.describe()).collect::<Vec<_>>(), "history" => Json::Arr(log.clone())};
    for _ in 0..nops {
        let ti = rng.usize_below(templates.len());
        // one call in four describes the collector again from scratch: equality of descriptors is
        // structural, it must not depend on which map instance produced them
        let t = if rng.chance(1, 4) { templates[ti].rebuilt() } else { templates[ti].clone() };
        cx.part.evaluations += 1;
        match rng.below(10) {
            0..=5 => {
                let ra = catch(|| a.register(t.boxed()));
                let oa = outcome(&ra);
                let exp = model.expect_register(&t);
                log.push(Json::Str(format!("register(T{}: {}) -> {} (expected {:?})", ti, t.describe(), oa, exp)));
                if oa.starts_with("panic") {
                    cx.violation("register-panicked", "register", oa, detail(&log, &templates));
                    return;
                }
                let ok = oa == "Ok";
                match exp {
                    Expect::Ok if !ok => {
                        cx.violation("admissible-collector-refused", "register", format!("T{} ({}) was refused with {}", ti, t.describe(), oa), detail(&log, &templates));
                        return;
                    }
                    Expect::AlreadyReg if oa != "AlreadyReg" => {
                        cx.violation("equal-descriptor-not-reported-as-AlreadyReg", "register", format!("T{} ({}) -> {}", ti, t.describe(), oa), detail(&log, &templates));
                        return;
                    }
                    Expect::AnyError if ok => {
                        cx.violation("conflicting-collector-admitted", "register", format!("T{} ({}) was admitted", ti, t.describe()), detail(&log, &templates));
                        return;
                    }
                    Expect::NotJudged => cx.part.count("self_inconsistent_collectors_not_judged", 1),
                    _ => {}
                }
                if ok {
                    model.apply_register(&t);
                    // twin: only successful calls are replayed
                    let rb = catch(|| b.register(t.boxed()));
                    let ob = outcome(&rb);
                    if ob != oa {
                        cx.violation("failed-call-left-a-trace", "register", format!("register(T{}) succeeds on the registry that saw failed calls but gives {} on the registry that never saw them", ti, ob), detail(&log, &templates));
                        return;
                    }
                    cx.part.count("successful_registrations", 1);
                } else {
                    cx.part.count("failed_registrations", 1);
                    // what would the twin say? it must agree, without changing it: probe on a throw-away clone is not
                    // possible, so the agreement is checked by the final probe and by later calls.
                }
            }
            6..=8 => {
                let ra = catch(|| a.unregister(t.boxed()));
                let oa = outcome(&ra);
                let exp = model.expect_unregister(&t);
                log.push(Json::Str(format!("unregister(T{}) -> {} (expected {})", ti, oa, if exp { "Ok" } else { "Err" })));
                if oa.starts_with("panic") {
                    cx.violation("unregister-panicked", "unregister", oa, detail(&log, &templates));
                    return;
                }
                if (oa == "Ok") != exp {
                    cx.violation("unregister-outcome-wrong", "unregister", format!("unregister(T{}: {}) -> {} but the collector is {}registered", ti, t.describe(), oa, if exp { "" } else { "not " }), detail(&log, &templates));
                    return;
                }
                if oa == "Ok" {
                    model.apply_unregister(&t);
                    let ob = outcome(&catch(|| b.unregister(t.boxed())));
                    if ob != "Ok" {
                        cx.violation("failed-call-left-a-trace", "unregister", format!("unregister(T{}) -> Ok on one registry, {} on its twin", ti, ob), detail(&log, &templates));
                        return;
                    }
                }
            }
            _ => {
                let ga = a.gather();
                let gb = b.gather();
                log.push(Json::Str("gather".into()));
                check_exposition(cx, &ga, true, "gather/registry-history");
                if let Err(msg) = mf_equal(&extract_all(&ga), &extract_all(&gb)) {
                    cx.violation("failed-call-left-a-trace", "gather", format!("gather differs between the registry that saw failed calls and its twin: {}", msg), jobj! {"history" => Json::Arr(log.clone()), "gather_a" => families_json(&extract_all(&ga)), "gather_b" => families_json(&extract_all(&gb))});
                    return;
                }
                let keys = gathered_keys(&ga, &templates);
                let want = model.exported_keys();
                if keys != want {
                    cx.violation("gather-does-not-match-registered-collectors", "gather", format!("gather exposes {:?}, registered collectors are {:?}", keys, want), detail(&log, &templates));
                    return;
                }
            }
        }
    }
    if bulk {
        // drain: unregister (almost) everything that is registered, on both registries; the names stay pinned
        // to the help text and label names they were registered with
        let mut drained = 0;
        for (ti, t) in templates.iter().enumerate() {
            if model.expect_unregister(t) && ti % 16 != 0 {
                let oa = outcome(&catch(|| a.unregister(t.boxed())));
                let ob = outcome(&catch(|| b.unregister(t.boxed())));
                log.push(Json::Str(format!("drain unregister(T{}) -> {} / twin {}", ti, oa, ob)));
                if oa != "Ok" || ob != "Ok" {
                    cx.violation("unregister-outcome-wrong", "drain", format!("unregister(T{}: {}) of a registered collector -> {} / twin {}", ti, t.describe(), oa, ob), detail(&log, &templates));
                    return;
                }
                model.apply_unregister(t);
                drained += 1;
            }
        }
        cx.part.count("bulk_drained_collectors", drained);
    }
    // final probe: one registration attempt of every template on both registries
    for (ti, t) in templates.iter().enumerate() {
        let oa = outcome(&catch(|| a.register(t.boxed())));
        let ob = outcome(&catch(|| b.register(t.boxed())));
        log.push(Json::Str(format!("probe register(T{}) -> {} / twin {}", ti, oa, ob)));
        cx.part.count("final_probes", 1);
        // error *kinds* may differ only when both an equal descriptor and a dimension conflict exist
        // ... and against the model (what was ever registered under a name still binds it)
        let exp = model.expect_register(t);
        let ok = oa == "Ok";
        if (exp == Expect::Ok && !ok) || ((exp == Expect::AnyError || exp == Expect::AlreadyReg) && ok) {
            cx.violation(if ok { "conflicting-collector-admitted" } else { "admissible-collector-refused" }, "final-probe", format!("register(T{}: {}) -> {} (expected {:?})", ti, t.describe(), oa, exp), detail(&log, &templates));
            return;
        }
        if ok {
            model.apply_register(t);
        }
        if (oa == "Ok") != (ob == "Ok") {
            cx.violation("failed-call-left-a-trace", "final-probe", format!("register(T{}: {}) -> {} on the registry that saw failed calls, {} on its twin", ti, t.describe(), oa, ob), detail(&log, &templates));
            return;
        }
    }
    cx.distinct(|h| {
        for t in &templates {
            h.str(&t.describe());
        }
        h.u64(nops as u64);
    });
    if cx.part.samples.len() < 2 {
        cx.part.sample(2, detail(&log, &templates));
    }
}
