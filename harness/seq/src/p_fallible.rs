//! C17 — fallible APIs report bad input as Err and do not panic.
//! Sweep of every Result-returning public function with pool arguments under
//! catch_unwind, arbitrary MetricFamily values (every MetricType, missing payloads,
//! empty names, no samples) through both encoders, and writers that fail at byte k
//! for every k up to the full output length (complete enumeration of the fault point).
use std::collections::HashMap;
use std::io::{self, Write};

use prometheus::core::{Collector, Desc};
use prometheus::proto::MetricFamily;
use prometheus::{
    exponential_buckets, linear_buckets, Counter, CounterVec, Encoder, Gauge, GaugeVec, Histogram, HistogramOpts, HistogramVec, IntCounter, IntCounterVec, IntGauge, IntGaugeVec, Opts, ProtobufEncoder, PullingGauge, Registry,
    TextEncoder,
};
use vcore::jobj;
use vcore::json::Json;
use vcore::pools::{self, NAME_POOL};
use vcore::prng::Rng;

use crate::ctx::{catch, trunc, Ctx};
use crate::fam::{build, families_json, MType, MF};
use crate::p_encode::gen_family;

/// Outcome of one guarded call: Ok(true) = returned Ok, Ok(false) = returned Err, Err = panicked.
fn guarded<T>(f: impl FnOnce() -> prometheus::Result<T>) -> Result<bool, String> {
    catch(|| f().is_ok())
}

fn any_name(rng: &mut Rng) -> String {
    if rng.chance(1, 2) {
        rng.pick(NAME_POOL).to_string()
    } else {
        pools::any_string(rng)
    }
}

fn report(cx: &mut Ctx, api: &str, args: String, r: Result<bool, String>, must_err: bool) {
    cx.part.evaluations += 1;
    cx.part.count("guarded_calls", 1);
    cx.distinct(|h| {
        h.str(api);
        h.str(&args);
    });
    match r {
        Err(p) => cx.violation("fallible-api-panicked", api, format!("{}({}) panicked: {}", api, trunc(&args, 600), trunc(&p, 300)), jobj! {"api" => api, "args" => args}),
        Ok(true) if must_err => cx.violation("invalid-argument-accepted", api, format!("{}({}) returned Ok", api, trunc(&args, 600)), jobj! {"api" => api, "args" => args}),
        Ok(true) => cx.part.count("returned_ok", 1),
        Ok(false) => cx.part.count("returned_err", 1),
    }
}

struct FailAt {
    left: usize,
    written: usize,
}

impl Write for FailAt {
    fn write(&mut self, buf: &[u8]) -> io::Result<usize> {
        if self.left == 0 {
            return Err(io::Error::new(io::ErrorKind::Other, "injected write failure"));
        }
        let n = buf.len().min(self.left);
        self.left -= n;
        self.written += n;
        Ok(n)
    }
    fn flush(&mut self) -> io::Result<()> {
        Ok(())
    }
}

struct WeirdCollector {
    descs: Vec<Desc>,
    fams: Vec<MetricFamily>,
}
impl Collector for WeirdCollector {
    fn desc(&self) -> Vec<&Desc> {
        self.descs.iter().collect()
    }
    fn collect(&self) -> Vec<MetricFamily> {
        self.fams.clone()
    }
}

fn arbitrary_family(rng: &mut Rng, idx: usize, fpool: &[f64]) -> MF {
    let mut f = gen_family(rng, idx, fpool);
    if rng.chance(1, 6) {
        // long non-ASCII help at a random byte offset (error paths that render or truncate the family)
        f.help = format!("{}{}", "x".repeat(rng.usize_below(8)), "é日".repeat(60 + rng.usize_below(200)));
    }
    match rng.below(10) {
        0 => f.typ = MType::Untyped,
        1 => f.name = String::new(),
        2 => f.metrics.clear(),
        3 => f.name = any_name(rng),
        4 => {
            // payload that does not match the declared type / no payload at all
            f.typ = *rng.pick(&[MType::Counter, MType::Gauge, MType::Histogram, MType::Summary, MType::Untyped]);
            for m in f.metrics.iter_mut() {
                if rng.chance(1, 2) {
                    m.counter = None;
                    m.gauge = None;
                    m.hist = None;
                    m.summ = None;
                }
            }
        }
        5 => {
            for m in f.metrics.iter_mut() {
                for l in m.labels.iter_mut() {
                    l.0 = any_name(rng);
                }
            }
        }
        _ => {}
    }
    f
}

pub fn run_case(cx: &mut Ctx) {
    let mut rng = Rng::derive(cx.seed, cx.case.wrapping_mul(2).wrapping_add(0xC17));
    let fpool = pools::float_pool();
    let key = cx.case ^ cx.seed.rotate_left(17);
    cx.distinct(|h| h.u64(key));
    // ---- constructors -------------------------------------------------------------------------
    for _ in 0..6 {
        let (ns, sub, name, help) = (any_name(&mut rng), any_name(&mut rng), any_name(&mut rng), pools::any_string(&mut rng));
        let mut cl: HashMap<String, String> = HashMap::new();
        for _ in 0..rng.usize_below(4) {
            cl.insert(any_name(&mut rng), pools::any_string(&mut rng));
        }
        let nlabels = match rng.below(8) {
            0 => 64,
            1 => 0,
            _ => rng.usize_below(4),
        };
        let labels: Vec<String> = (0..nlabels).map(|i| if rng.chance(2, 3) { format!("l{}", i) } else { any_name(&mut rng) }).collect();
        let lrefs: Vec<&str> = labels.iter().map(|s| s.as_str()).collect();
        let buckets: Vec<f64> = (0..match rng.below(6) {
            0 => 1000,
            _ => rng.usize_below(6),
        })
            .map(|_| pools::any_f64(&mut rng, &fpool))
            .collect();
        let opts = || Opts::new(name.clone(), help.clone()).namespace(ns.clone()).subsystem(sub.clone()).const_labels(cl.clone());
        let hopts = || HistogramOpts::new(name.clone(), help.clone()).namespace(ns.clone()).subsystem(sub.clone()).const_labels(cl.clone()).buckets(buckets.clone());
        let args = format!("ns={:?} sub={:?} name={:?} help={:?} const={:?} labels={:?} buckets[{}]", ns, sub, name, help, cl, labels, buckets.len());
        report(cx, "Counter::with_opts", args.clone(), guarded(|| Counter::with_opts(opts())), false);
        report(cx, "IntCounter::with_opts", args.clone(), guarded(|| IntCounter::with_opts(opts())), false);
        report(cx, "Gauge::with_opts", args.clone(), guarded(|| Gauge::with_opts(opts())), false);
        report(cx, "IntGauge::with_opts", args.clone(), guarded(|| IntGauge::with_opts(opts())), false);
        report(cx, "Histogram::with_opts", args.clone(), guarded(|| Histogram::with_opts(hopts())), false);
        report(cx, "CounterVec::new", args.clone(), guarded(|| CounterVec::new(opts(), &lrefs)), false);
        report(cx, "IntCounterVec::new", args.clone(), guarded(|| IntCounterVec::new(opts(), &lrefs)), false);
        report(cx, "GaugeVec::new", args.clone(), guarded(|| GaugeVec::new(opts(), &lrefs)), false);
        report(cx, "IntGaugeVec::new", args.clone(), guarded(|| IntGaugeVec::new(opts(), &lrefs)), false);
        report(cx, "HistogramVec::new", args.clone(), guarded(|| HistogramVec::new(hopts(), &lrefs)), false);
        report(cx, "Desc::new", args.clone(), guarded(|| Desc::new(name.clone(), help.clone(), labels.clone(), cl.clone())), false);
        report(cx, "PullingGauge::new", args.clone(), guarded(|| PullingGauge::new(name.clone(), help.clone(), Box::new(|| f64::NAN))), false);
        let prefix = if rng.chance(1, 2) { Some(any_name(&mut rng)) } else { None };
        report(cx, "Registry::new_custom", format!("prefix={:?} labels={:?}", prefix, cl), guarded(|| Registry::new_custom(prefix.clone(), if rng.chance(1, 2) { Some(cl.clone()) } else { None })), prefix.as_deref() == Some(""));
    }
    // ---- vector lookups with any cardinality ---------------------------------------------------
    {
        let n = 1 + rng.usize_below(3);
        let names: Vec<String> = (0..n).map(|i| format!("l{}", i)).collect();
        let nrefs: Vec<&str> = names.iter().map(|s| s.as_str()).collect();
        let cv = CounterVec::new(Opts::new("c17_cv", "h"), &nrefs).unwrap();
        let hv = HistogramVec::new(HistogramOpts::new("c17_hv", "h"), &nrefs).unwrap();
        let gv = IntGaugeVec::new(Opts::new("c17_gv", "h"), &nrefs).unwrap();
        for _ in 0..8 {
            let k = match rng.below(6) {
                0 => 0,
                1 => 64,
                2 => n,
                _ => rng.usize_below(5),
            };
            let vals: Vec<String> = (0..k).map(|_| pools::any_string(&mut rng)).collect();
            let must = k != n;
            let args = format!("{} values for {} labels: {:?}", k, n, vals);
            report(cx, "CounterVec::get_metric_with_label_values", args.clone(), guarded(|| cv.get_metric_with_label_values(&vals)), must);
            report(cx, "HistogramVec::get_metric_with_label_values", args.clone(), guarded(|| hv.get_metric_with_label_values(&vals)), must);
            report(cx, "IntGaugeVec::get_metric_with_label_values", args.clone(), guarded(|| gv.get_metric_with_label_values(&vals)), must);
            report(cx, "CounterVec::remove_label_values", args.clone(), guarded(|| cv.remove_label_values(&vals)), must);
            report(cx, "HistogramVec::remove_label_values", args.clone(), guarded(|| hv.remove_label_values(&vals)), must);
            // map forms: right names, wrong names, extra names
            let mut m: HashMap<&str, String> = HashMap::new();
            let keys: Vec<String> = (0..k).map(|i| if rng.chance(3, 4) { format!("l{}", i) } else { any_name(&mut rng) }).collect();
            for (kk, v) in keys.iter().zip(vals.iter()) {
                m.insert(kk.as_str(), v.clone());
            }
            let ok_map = m.len() == n && names.iter().all(|nm| m.contains_key(nm.as_str()));
            let args = format!("map {:?} for labels {:?}", m, names);
            report(cx, "CounterVec::get_metric_with", args.clone(), guarded(|| cv.get_metric_with(&m)), !ok_map);
            report(cx, "HistogramVec::get_metric_with", args.clone(), guarded(|| hv.get_metric_with(&m)), !ok_map);
            report(cx, "IntGaugeVec::remove", args.clone(), guarded(|| gv.remove(&m)), !ok_map);
            report(cx, "CounterVec::remove", args.clone(), guarded(|| cv.remove(&m)), !ok_map);
        }
    }
    // ---- bucket helpers ----------------------------------------------------------------------
    for _ in 0..8 {
        let (a, b) = (pools::any_f64(&mut rng, &fpool), pools::any_f64(&mut rng, &fpool));
        let count = match rng.below(6) {
            0 => 0,
            1 => 1000,
            _ => rng.usize_below(12),
        };
        report(cx, "linear_buckets", format!("start={:?} width={:?} count={}", a, b, count), guarded(|| linear_buckets(a, b, count)), count == 0 || b <= 0.0);
        report(cx, "exponential_buckets", format!("start={:?} factor={:?} count={}", a, b, count), guarded(|| exponential_buckets(a, b, count)), count == 0 || a <= 0.0 || b <= 1.0);
    }
    // ---- register / unregister with arbitrary collectors -------------------------------------
    {
        let reg = if rng.chance(1, 2) { Registry::new() } else { Registry::new_custom(Some("p".into()), None).unwrap() };
        for i in 0..6 {
            let mf = arbitrary_family(&mut rng, i, &fpool);
            let mut descs = Vec::new();
            for _ in 0..rng.usize_below(3) {
                if let Ok(d) = Desc::new(format!("c17_w{}", rng.below(4)), "h".into(), vec![], HashMap::new()) {
                    descs.push(d);
                }
            }
            let args = format!("collector with {} descriptors, family {:?}", descs.len(), mf.name);
            let fams = vec![build(&mf)];
            report(cx, "Registry::register", args.clone(), guarded(|| reg.register(Box::new(WeirdCollector { descs: descs.clone(), fams: fams.clone() }))), false);
            if rng.chance(1, 2) {
                report(cx, "Registry::unregister", args.clone(), guarded(|| reg.unregister(Box::new(WeirdCollector { descs: descs.clone(), fams: vec![] }))), false);
            }
        }
        // gathering whatever got registered and encoding it must not panic either
        let gathered = catch(|| reg.gather());
        cx.part.evaluations += 1;
        match gathered {
            Err(p) => cx.violation("gather-panicked", "Registry::gather", p, Json::Null),
            Ok(mfs) => {
                report(cx, "TextEncoder::encode", "gather of arbitrary collectors".into(), guarded(|| TextEncoder::new().encode(&mfs, &mut Vec::new())), false);
                report(cx, "ProtobufEncoder::encode", "gather of arbitrary collectors".into(), guarded(|| ProtobufEncoder::new().encode(&mfs, &mut Vec::new())), false);
            }
        }
    }
    // ---- encoders: arbitrary families ---------------------------------------------------------
    {
        let nf = 1 + rng.usize_below(4);
        let mfs: Vec<MF> = (0..nf).map(|i| arbitrary_family(&mut rng, i, &fpool)).collect();
        let pmfs: Vec<MetricFamily> = mfs.iter().map(build).collect();
        let refused_both = mfs.iter().any(|f| f.name.is_empty() || f.metrics.is_empty());
        let first_bad = mfs.iter().position(|f| f.name.is_empty() || f.metrics.is_empty() || f.typ == MType::Untyped);
        let refused_text = first_bad.is_some();
        let args = families_json(&mfs).to_string();
        report(cx, "TextEncoder::encode", args.clone(), guarded(|| TextEncoder::new().encode(&pmfs, &mut Vec::new())), refused_text);
        report(cx, "TextEncoder::encode_utf8", args.clone(), guarded(|| TextEncoder::new().encode_utf8(&pmfs, &mut String::new())), refused_text);
        report(cx, "TextEncoder::encode_to_string", args.clone(), guarded(|| TextEncoder::new().encode_to_string(&pmfs)), refused_text);
        report(cx, "ProtobufEncoder::encode", args.clone(), guarded(|| ProtobufEncoder::new().encode(&pmfs, &mut Vec::new())), refused_both);
    }
    // ---- encoders: writer failing at byte k, every k -------------------------------------------
    {
        let nf = 1 + rng.usize_below(2);
        let mfs: Vec<MF> = (0..nf).map(|i| gen_family(&mut rng, i, &fpool)).collect();
        let pmfs: Vec<MetricFamily> = mfs.iter().map(build).collect();
        let mut full_text = Vec::new();
        let mut full_pb = Vec::new();
        let full = catch(|| TextEncoder::new().encode(&pmfs, &mut full_text).is_ok() && ProtobufEncoder::new().encode(&pmfs, &mut full_pb).is_ok());
        if let Err(p) = &full {
            report(cx, "TextEncoder::encode", families_json(&mfs).to_string(), Err(p.clone()), false);
        }
        if full == Ok(true) {
            let step_cap = if cx.thorough { usize::MAX } else { 1500 };
            for (api, total) in [("TextEncoder::encode", full_text.len()), ("ProtobufEncoder::encode", full_pb.len())] {
                let limit = total.min(step_cap);
                for k in 0..limit {
                    let mut w = FailAt { left: k, written: 0 };
                    let r = if api.starts_with("Text") { guarded(|| TextEncoder::new().encode(&pmfs, &mut w)) } else { guarded(|| ProtobufEncoder::new().encode(&pmfs, &mut w)) };
                    cx.part.count("writer_fault_points", 1);
                    match r {
                        Err(p) => {
                            cx.violation("encoder-panicked-on-failing-writer", api, format!("writer failing after {} of {} bytes: {}", k, total, trunc(&p, 300)), jobj! {"api" => api, "fail_after" => k, "families" => families_json(&mfs)});
                            break;
                        }
                        Ok(true) => {
                            cx.violation("encoder-reports-ok-on-failing-writer", api, format!("writer failed after {} of {} bytes but encode returned Ok", k, total), jobj! {"api" => api, "fail_after" => k, "families" => families_json(&mfs)});
                            break;
                        }
                        Ok(false) => {}
                    }
                }
                cx.part.evaluations += 1;
            }
        }
    }
    if cx.part.samples.len() < 2 {
        cx.part.sample(2, jobj! {"note" => "constructors, vector lookups, bucket helpers, register/unregister, encoders with arbitrary families and failing writers", "case" => cx.case});
    }
}
