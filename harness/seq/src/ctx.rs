//! Run context of the sequential monitors.
use vcore::jobj;
use vcore::json::Json;
use vcore::prng::Fnv;
use vcore::report::{Part, Violation};

pub struct Ctx {
    /// property this process decides; exposition rules owned by other properties are only counted
    pub prop: String,
    pub seed: u64,
    pub case: u64,
    pub thorough: bool,
    pub verbose: bool,
    pub part: Part,
    /// true while a workload of another property is run only to feed expositions to this property's rules
    pub feeder: bool,
    /// metric names under which the current workload deliberately registered collectors of different kinds
    pub mixed_kind_names: Vec<String>,
    /// hash of the current case's generated arguments (for workloads whose distinctness is arguments x call sites)
    pub case_tag: u64,
}

impl Ctx {
    pub fn violation(&mut self, rule: &str, site: &str, explanation: String, detail: Json) {
        let replay = jobj! {
            "property" => self.prop.clone(),
            "engine" => "seq",
            "binary" => "seq",
            "seed" => self.seed,
            "case" => self.case,
            "thorough" => self.thorough,
            "detail" => detail,
        };
        if self.verbose {
            println!("VIOLATION {}:{} {}", rule, site, explanation);
        }
        self.part.violation(Violation { signature: format!("{}:{}", rule, site), rule: rule.to_string(), explanation, replay });
    }
    /// Like `owned_violation`, but the (possibly large) detail is only built for the first witness of a signature.
    pub fn owned_violation_with(&mut self, owner: &str, rule: &str, site: &str, explanation: String, detail: impl FnOnce() -> Json) {
        if owner != self.prop {
            self.part.count(&format!("findings_owned_by_{}", owner), 1);
        } else if self.part.seen(&format!("{}:{}", rule, site)) {
            self.part.count("violations_raw", 1);
        } else {
            self.violation(rule, site, explanation, detail());
        }
    }
    /// Report a violation of a rule owned by `owner`; when another property is being decided it is only counted.
    pub fn owned_violation(&mut self, owner: &str, rule: &str, site: &str, explanation: String, detail: Json) {
        if owner == self.prop {
            self.violation(rule, site, explanation, detail);
        } else {
            self.part.count(&format!("findings_owned_by_{}", owner), 1);
        }
    }
    pub fn distinct(&mut self, f: impl FnOnce(&mut Fnv)) {
        let mut h = Fnv::new();
        f(&mut h);
        self.part.distinct.insert(h.finish());
    }
    pub fn owns(&self, p: &str) -> bool {
        self.prop == p
    }
}

/// Run `f`, turning a panic into `Err(message)`.
pub fn catch<R>(f: impl FnOnce() -> R) -> Result<R, String> {
    match std::panic::catch_unwind(std::panic::AssertUnwindSafe(f)) {
        Ok(r) => Ok(r),
        Err(p) => {
            if let Some(s) = p.downcast_ref::<&str>() {
                Err((*s).to_string())
            } else if let Some(s) = p.downcast_ref::<String>() {
                Err(s.clone())
            } else {
                Err("<non-string panic>".into())
            }
        }
    }
}

pub fn trunc(s: &str, n: usize) -> String {
    if s.chars().count() <= n {
        s.to_string()
    } else {
        let t: String = s.chars().take(n).collect();
        format!("{}…", t)
    }
}
