//! C18 — a timer records its duration exactly once, or never when discarded.
use std::time::{Duration, Instant};

use prometheus::core::Metric;
use prometheus::local::{LocalHistogram, LocalHistogramTimer};
use prometheus::{Histogram, HistogramOpts, HistogramTimer};
use vcore::jobj;
use vcore::prng::Rng;

use crate::ctx::Ctx;

fn snapshot(h: &Histogram) -> (u64, f64) {
    let m = h.metric();
    let hp = m.get_histogram();
    (hp.get_sample_count(), hp.get_sample_sum())
}

enum T {
    Shared(HistogramTimer, Instant),
    Local(LocalHistogramTimer, Instant, usize),
}

pub fn run_case(cx: &mut Ctx) {
    let mut rng = Rng::derive(cx.seed, cx.case.wrapping_mul(2).wrapping_add(0xC18));
    let h = Histogram::with_opts(HistogramOpts::new("c18_h", "h")).unwrap();
    let mut locals: Vec<LocalHistogram> = vec![h.local()];
    let mut local_own: Vec<u64> = vec![0]; // observations made directly on each local handle (not through timers)
    let mut timers: Vec<Option<T>> = Vec::new();
    let mut count: u64 = 0; // model of the shared histogram's sample count
    let mut log: Vec<String> = Vec::new();
    let nops = 8 + rng.usize_below(if cx.thorough { 60 } else { 30 });
    let site = "timer";
    let t0 = Instant::now();
    for _ in 0..nops {
        cx.part.evaluations += 1;
        let (c_before, s_before) = snapshot(&h);
        let live: Vec<usize> = timers.iter().enumerate().filter(|(_, t)| t.is_some()).map(|(i, _)| i).collect();
        let op = rng.below(15);
        let mut may_record_one = false;
        let mut expect_delta: u64 = 0;
        let mut returned: Option<f64> = None;
        let mut started_at: Option<Instant> = None;
        let mut pending_flushed: u64 = 0;
        if rng.chance(1, 6) {
            std::thread::sleep(Duration::from_micros(rng.below(300)));
        }
        if live.is_empty() || op < 3 {
            if rng.chance(1, 3) {
                let li = rng.usize_below(locals.len());
                timers.push(Some(T::Local(locals[li].start_timer(), Instant::now(), li)));
                log.push(format!("t{} = local{}.start_timer()", timers.len() - 1, li));
            } else {
                timers.push(Some(T::Shared(h.start_timer(), Instant::now())));
                log.push(format!("t{} = histogram.start_timer()", timers.len() - 1));
            }
        } else {
            let i = *rng.pick(&live);
            match op {
                3 | 4 => {
                    match timers[i].take().unwrap() {
                        T::Shared(t, st) => {
                            started_at = Some(st);
                            t.observe_duration()
                        }
                        T::Local(t, st, _) => {
                            started_at = Some(st);
                            t.observe_duration()
                        }
                    }
                    expect_delta = 1;
                    log.push(format!("t{}.observe_duration()", i));
                }
                5 | 6 => {
                    let v = match timers[i].take().unwrap() {
                        T::Shared(t, st) => {
                            started_at = Some(st);
                            t.stop_and_record()
                        }
                        T::Local(t, st, _) => {
                            started_at = Some(st);
                            t.stop_and_record()
                        }
                    };
                    returned = Some(v);
                    expect_delta = 1;
                    log.push(format!("t{}.stop_and_record() -> {:?}", i, v));
                }
                7 | 8 => {
                    let v = match timers[i].take().unwrap() {
                        T::Shared(t, st) => {
                            started_at = Some(st);
                            t.stop_and_discard()
                        }
                        T::Local(t, st, _) => {
                            started_at = Some(st);
                            t.stop_and_discard()
                        }
                    };
                    log.push(format!("t{}.stop_and_discard() -> {:?}", i, v));
                    if !(v >= 0.0) || !v.is_finite() {
                        cx.violation("discarded-duration-not-a-non-negative-number", site, format!("stop_and_discard returned {:?}", v), jobj! {"history" => log.clone()});
                        return;
                    }
                }
                9 => {
                    match timers[i].take().unwrap() {
                        T::Shared(t, st) => {
                            started_at = Some(st);
                            drop(t)
                        }
                        T::Local(t, st, _) => {
                            started_at = Some(st);
                            drop(t)
                        }
                    }
                    expect_delta = 1;
                    log.push(format!("drop(t{})", i));
                }
                10 => {
                    // move to another thread and finish there
                    match timers[i].take().unwrap() {
                        T::Shared(t, st) => {
                            started_at = Some(st);
                            let how = rng.below(3);
                            std::thread::spawn(move || match how {
                                0 => t.observe_duration(),
                                1 => drop(t),
                                _ => {
                                    let _ = t.stop_and_record();
                                }
                            })
                            .join()
                            .unwrap();
                            expect_delta = 1;
                            log.push(format!("t{} moved to another thread and finished there ({})", i, ["observe_duration", "drop", "stop_and_record"][how as usize]));
                        }
                        other => {
                            timers[i] = Some(other);
                            log.push("noop".into());
                        }
                    }
                }
                11 => {
                    let marker = rng.next_u64();
                    let started = Instant::now();
                    let nap = if rng.chance(1, 2) { rng.below(200) } else { 0 };
                    // sometimes the timed closure itself uses the local histogram it is timed by
                    let reenter = rng.chance(1, 3);
                    let on_local = rng.chance(1, 2);
                    let l0 = &locals[0];
                    let mut inner_observations = 0u64;
                    let work = || {
                        if nap > 0 {
                            std::thread::sleep(Duration::from_micros(nap));
                        }
                        if reenter && on_local {
                            l0.observe(0.25);
                            let t = l0.start_timer();
                            t.observe_duration();
                            inner_observations = 2;
                        }
                        marker
                    };
                    let r = if on_local { l0.observe_closure_duration(work) } else { h.observe_closure_duration(work) };
                    // the inner local timer reaches the shared histogram at once, the inner observe stays pending
                    if inner_observations == 2 {
                        local_own[0] += 1;
                        count += 1;
                        log.push("  (the closure observed on local0 and ran a local timer of local0)".into());
                    }
                    if r != marker {
                        cx.violation("closure-result-not-returned", site, format!("observe_closure_duration returned {} instead of {}", r, marker), jobj! {"history" => log.clone()});
                        return;
                    }
                    let _ = started;
                    log.push(format!("observe_closure_duration on {}", if on_local { "local0" } else { "the shared histogram" }));
                    if on_local {
                        // the closure's own observation is pending on local0 (together with anything it observed
                        // itself): flush it now so the shared count can be compared
                        local_own[0] += 1;
                        locals[0].flush();
                        log.push("local0.flush()".into());
                        pending_flushed = local_own[0];
                        local_own[0] = 0;
                    } else {
                        expect_delta = 1;
                    }
                    started_at = Some(started);
                }
                12 => {
                    // the parent local handle observes, is flushed or cleared in between: independent of running timers
                    let li = rng.usize_below(locals.len());
                    match rng.below(4) {
                        0 | 1 => {
                            locals[li].observe(0.5);
                            local_own[li] += 1;
                            log.push(format!("local{}.observe(0.5)  (pending on the local handle)", li));
                        }
                        2 => {
                            locals[li].flush();
                            pending_flushed = local_own[li];
                            local_own[li] = 0;
                            log.push(format!("local{}.flush()", li));
                        }
                        _ => {
                            locals[li].clear();
                            local_own[li] = 0;
                            log.push(format!("local{}.clear()", li));
                        }
                    }
                }
                13 if rng.chance(1, 2) => {
                    // the timer is dropped by a thread that is unwinding from a panic: still exactly one observation
                    let t = timers[i].take().unwrap();
                    let r = std::panic::catch_unwind(std::panic::AssertUnwindSafe(move || {
                        let _held = t;
                        panic!("workload panic with a live timer");
                    }));
                    assert!(r.is_err());
                    expect_delta = 1;
                    log.push(format!("t{} dropped while its thread unwinds from a panic", i));
                }
                14 => {
                    // fault path: the timed closure panics and the caller catches the panic. The property does not
                    // say whether the aborted run is recorded (today it is not), so zero or one observation is
                    // accepted here - but nothing else, and every later step must still add up exactly.
                    let on_local = rng.chance(1, 2);
                    let reenter = rng.chance(1, 2);
                    let l0 = &locals[0];
                    let mut inner = 0u64;
                    let r = std::panic::catch_unwind(std::panic::AssertUnwindSafe(|| {
                        let work = || -> u64 {
                            if reenter {
                                // the closure has used the histogram and holds a live timer of it when it panics
                                l0.observe(0.25);
                                inner = 1;
                                let _t = l0.start_timer();
                                panic!("workload panic inside a timed closure (live local timer)");
                            }
                            panic!("workload panic inside a timed closure");
                        };
                        if on_local {
                            l0.observe_closure_duration(work)
                        } else {
                            h.observe_closure_duration(work)
                        }
                    }));
                    assert!(r.is_err());
                    cx.part.count("panicking_timed_closures", 1);
                    if inner == 1 {
                        // the inner observe stays pending on local0; the inner timer was dropped by the unwinding
                        // and reached the shared histogram at once
                        local_own[0] += 1;
                        count += 1;
                    }
                    // bring everything pending on local0 to the shared histogram so that the books can be compared
                    locals[0].flush();
                    pending_flushed = local_own[0];
                    local_own[0] = 0;
                    may_record_one = true;
                    log.push(format!("observe_closure_duration on {} with a closure that panics{} (caught); local0.flush()", if on_local { "local0" } else { "the shared histogram" }, if reenter { " after observing on local0 and starting a local timer" } else { "" }));
                }
                _ => {
                    locals.push(h.local());
                    local_own.push(0);
                    log.push(format!("local{} = histogram.local()", locals.len() - 1));
                }
            }
        }
        count += expect_delta + pending_flushed;
        let (c_after, s_after) = snapshot(&h);
        if may_record_one && c_after == count + 1 {
            cx.part.count("panicking_closures_recorded", 1);
            count += 1;
        }
        let detail = || jobj! {"history" => log.clone()};
        if c_after != count {
            cx.violation(
                "timer-observation-count-wrong",
                site,
                format!("the histogram holds {} observations after this step, {} expected (step contributes {}): {}", c_after, count, expect_delta, log.last().cloned().unwrap_or_default()),
                detail(),
            );
            return;
        }
        if pending_flushed > 0 {
            // a flush of directly observed values: only the count is modelled for this step
        } else if expect_delta == 1 {
            let d = s_after - s_before;
            let wall = started_at.map(|s| s.elapsed().as_secs_f64()).unwrap_or_else(|| t0.elapsed().as_secs_f64());
            if !(s_after >= s_before) || !s_after.is_finite() {
                cx.violation("recorded-duration-negative-or-not-finite", site, format!("sample_sum went from {:?} to {:?}", s_before, s_after), detail());
                return;
            }
            // sanity bound only (generous): the recorded duration cannot exceed the wall time around the timer
            if d > wall + 0.25 {
                cx.violation("recorded-duration-exceeds-wall-time", site, format!("recorded {:?}s, at most {:?}s elapsed", d, wall), detail());
                return;
            }
            if let Some(v) = returned {
                if (s_before + v).to_bits() != s_after.to_bits() || !(v >= 0.0) {
                    cx.violation("returned-duration-is-not-the-recorded-one", site, format!("stop_and_record returned {:?}; sample_sum went from {:?} to {:?}", v, s_before, s_after), detail());
                    return;
                }
            }
        } else if s_after.to_bits() != s_before.to_bits() && !may_record_one {
            cx.violation("sum-changed-without-an-observation", site, format!("sample_sum went from {:?} to {:?}", s_before, s_after), detail());
            return;
        }
    }
    // timers still alive are dropped now: one observation each
    let alive = timers.iter().filter(|t| t.is_some()).count() as u64;
    timers.clear();
    count += alive;
    // local handles still holding directly observed values flush them when dropped
    count += local_own.iter().sum::<u64>();
    drop(locals);
    if snapshot(&h).0 != count {
        cx.violation("timer-observation-count-wrong", "final-drop", format!("after dropping the {} remaining timers the histogram holds {} observations, {} expected", alive, snapshot(&h).0, count), jobj! {"history" => log.clone()});
        return;
    }
    cx.distinct(|hh| {
        for l in &log {
            // the operation sequence (without measured durations) identifies the history
            hh.str(l.split(" -> ").next().unwrap_or(l));
        }
    });
    cx.part.count("histories", 1);
    if cx.part.samples.len() < 2 {
        cx.part.sample(2, jobj! {"history" => log});
    }
}
