//! C09 — only well-formed, pairwise distinct names reach an exposed sample.
//! Monitor 1: admission of every constructor against byte-wise reference matchers.
//! Monitor 2: the exposition rules on gathers of whatever was admitted, through
//! registries with prefix / common labels from the pools.
use std::collections::HashMap;

use prometheus::core::{Collector, Desc};
use prometheus::{Counter, CounterVec, Gauge, GaugeVec, Histogram, HistogramOpts, HistogramVec, IntCounter, IntCounterVec, IntGauge, IntGaugeVec, Opts, PullingGauge, Registry};
use vcore::jobj;
use vcore::names::{fq_name, label_name_ok, metric_name_ok};
use vcore::pools::{NAME_POOL, VALID_LABEL_NAMES, VALID_METRIC_NAMES};
use vcore::prng::Rng;

use crate::ctx::{catch, Ctx};
use crate::expo::check_exposition;

fn ident(rng: &mut Rng, valid_bias: u64, valid: &[&str]) -> String {
    if rng.chance(valid_bias, 10) {
        rng.pick(valid).to_string()
    } else {
        rng.pick(NAME_POOL).to_string()
    }
}

#[derive(Debug, Clone)]
struct Args {
    ctor: usize,
    namespace: String,
    subsystem: String,
    name: String,
    help: String,
    consts: Vec<(String, String)>,
    vars: Vec<String>,
    /// how the options reach the constructor: 0 builder with whole maps, 1 builder one label at a time,
    /// 2 public struct fields, 3 the `new(name, help)` shorthand where the arguments allow it
    via: u64,
}

const CTORS: &[&str] = &[
    "Counter", "IntCounter", "Gauge", "IntGauge", "Histogram", "CounterVec", "IntCounterVec", "GaugeVec", "IntGaugeVec", "HistogramVec", "Desc::new", "PullingGauge",
];

fn expected_ok(a: &Args) -> bool {
    let is_hist = a.ctor == 4 || a.ctor == 9;
    let fq = if a.ctor >= 10 { a.name.clone() } else { fq_name(&a.namespace, &a.subsystem, &a.name) };
    if !metric_name_ok(&fq) || a.help.is_empty() {
        return false;
    }
    let mut seen: Vec<&String> = Vec::new();
    for n in a.consts.iter().map(|c| &c.0).chain(a.vars.iter()) {
        if !label_name_ok(n) || seen.contains(&n) {
            return false;
        }
        if is_hist && n == "le" {
            return false;
        }
        seen.push(n);
    }
    true
}

fn construct(a: &Args) -> Result<Option<Box<dyn Collector>>, String> {
    let mut cl: HashMap<String, String> = HashMap::new();
    for (k, v) in &a.consts {
        cl.insert(k.clone(), v.clone());
    }
    let (opts, hopts) = match a.via {
        1 => {
            let mut o = Opts::new(a.name.clone(), a.help.clone()).subsystem(a.subsystem.clone()).namespace(a.namespace.clone());
            let mut h = HistogramOpts::new(a.name.clone(), a.help.clone()).subsystem(a.subsystem.clone()).namespace(a.namespace.clone());
            for (k, v) in &cl {
                o = o.const_label(k.clone(), v.clone());
                h = h.const_label(k.clone(), v.clone());
            }
            (o, h)
        }
        2 => {
            let mut o = Opts::new("placeholder", "placeholder");
            o.namespace = a.namespace.clone();
            o.subsystem = a.subsystem.clone();
            o.name = a.name.clone();
            o.help = a.help.clone();
            o.const_labels = cl.clone();
            let h = HistogramOpts { common_opts: o.clone(), buckets: Vec::from(prometheus::DEFAULT_BUCKETS as &'static [f64]) };
            (o, h)
        }
        _ => (
            Opts::new(a.name.clone(), a.help.clone()).namespace(a.namespace.clone()).subsystem(a.subsystem.clone()).const_labels(cl.clone()),
            HistogramOpts::new(a.name.clone(), a.help.clone()).namespace(a.namespace.clone()).subsystem(a.subsystem.clone()).const_labels(cl.clone()),
        ),
    };
    // the shorthand constructors take a bare name and help
    let bare = a.via == 3 && a.namespace.is_empty() && a.subsystem.is_empty() && cl.is_empty();
    let vars: Vec<&str> = a.vars.iter().map(|s| s.as_str()).collect();
    let vals: Vec<&str> = a.vars.iter().map(|_| "v").collect();
    fn b<C: Collector + 'static>(c: C) -> Option<Box<dyn Collector>> {
        Some(Box::new(c))
    }
    let r: prometheus::Result<Option<Box<dyn Collector>>> = match a.ctor {
        0 if bare => Counter::new(a.name.clone(), a.help.clone()).map(b),
        1 if bare => IntCounter::new(a.name.clone(), a.help.clone()).map(b),
        2 if bare => Gauge::new(a.name.clone(), a.help.clone()).map(b),
        3 if bare => IntGauge::new(a.name.clone(), a.help.clone()).map(b),
        0 => Counter::with_opts(opts).map(b),
        1 => IntCounter::with_opts(opts).map(b),
        2 => Gauge::with_opts(opts).map(b),
        3 => IntGauge::with_opts(opts).map(b),
        4 => Histogram::with_opts(hopts).map(b),
        5 => CounterVec::new(opts, &vars).and_then(|v| v.get_metric_with_label_values(&vals).map(|_| b(v))),
        6 => IntCounterVec::new(opts, &vars).and_then(|v| v.get_metric_with_label_values(&vals).map(|_| b(v))),
        7 => GaugeVec::new(opts, &vars).and_then(|v| v.get_metric_with_label_values(&vals).map(|_| b(v))),
        8 => IntGaugeVec::new(opts, &vars).and_then(|v| v.get_metric_with_label_values(&vals).map(|_| b(v))),
        9 => HistogramVec::new(hopts, &vars).and_then(|v| v.get_metric_with_label_values(&vals).map(|_| b(v))),
        10 => Desc::new(a.name.clone(), a.help.clone(), a.vars.clone(), cl).map(|_| None),
        _ => PullingGauge::new(a.name.clone(), a.help.clone(), Box::new(|| 1.0)).map(b),
    };
    r.map_err(|e| e.to_string())
}

pub fn run_case(cx: &mut Ctx) {
    let mut rng = Rng::derive(cx.seed, cx.case.wrapping_mul(2).wrapping_add(0xC09));
    // registries from the pools: only those the library admits are used
    let mut registries: Vec<(String, Registry, Vec<String>)> = vec![("plain".into(), Registry::new(), vec![])];
    for _ in 0..3 {
        let prefix = if rng.chance(1, 2) { Some(ident(&mut rng, 5, &["pre", "p_q", "ns:x"])) } else { None };
        let mut labels: HashMap<String, String> = HashMap::new();
        for _ in 0..rng.usize_below(3) {
            labels.insert(ident(&mut rng, 6, &["zone", "host", "a", "le", "b"]), rng.pick(&["", "v", "é\n"]).to_string());
        }
        let desc = format!("prefix={:?} labels={:?}", prefix, labels);
        let names: Vec<String> = labels.keys().cloned().collect();
        cx.part.count("registry_settings_tried", 1);
        if let Ok(r) = Registry::new_custom(prefix, if labels.is_empty() { None } else { Some(labels) }) {
            cx.part.count("registry_settings_admitted", 1);
            registries.push((desc, r, names));
        }
    }
    let n = if cx.thorough { 120 } else { 60 };
    for i in 0..n {
        let ctor = rng.usize_below(CTORS.len());
        let is_vec = (5..=9).contains(&ctor);
        let nconst = if ctor == 11 { 0 } else { rng.usize_below(3) };
        let nvar = if is_vec || ctor == 10 { rng.usize_below(3) + is_vec as usize } else { 0 };
        let a = Args {
            ctor,
            namespace: if ctor >= 10 || rng.chance(2, 3) { String::new() } else { ident(&mut rng, 6, VALID_METRIC_NAMES) },
            subsystem: if ctor >= 10 || rng.chance(2, 3) { String::new() } else { ident(&mut rng, 6, VALID_METRIC_NAMES) },
            name: ident(&mut rng, 7, VALID_METRIC_NAMES),
            help: if rng.chance(1, 10) { String::new() } else { rng.pick(&["h", " ", "é", "help text"]).to_string() },
            consts: (0..nconst).map(|_| (ident(&mut rng, 8, VALID_LABEL_NAMES), rng.pick(&["", "1", "x"]).to_string())).collect(),
            vars: (0..nvar).map(|_| ident(&mut rng, 8, VALID_LABEL_NAMES)).collect(),
            via: rng.below(4),
        };
        let mut a = a;
        // one constructor call in fifteen carries many labels (more than eight in total), sometimes with a
        // variable label that repeats a constant label's name
        if a.ctor != 11 && rng.chance(1, 15) {
            a.consts = (0..(5 + rng.usize_below(3))).map(|i| (format!("c{}", i), "v".to_string())).collect();
            if is_vec || a.ctor == 10 {
                a.vars = (0..(4 + rng.usize_below(3))).map(|i| format!("v{}", i)).collect();
                if rng.chance(1, 2) {
                    let k = rng.usize_below(a.vars.len());
                    a.vars[k] = a.consts[rng.usize_below(a.consts.len())].0.clone();
                }
                if rng.chance(1, 4) {
                    let k = rng.usize_below(a.vars.len());
                    a.vars[k] = a.vars[(k + 1) % a.vars.len()].clone();
                }
            }
        }
        // HashMap cannot hold a const label name twice; keep the last value like the map does
        let mut dedup: Vec<(String, String)> = Vec::new();
        for (k, v) in a.consts.iter() {
            if let Some(p) = dedup.iter_mut().find(|p| &p.0 == k) {
                p.1 = v.clone();
            } else {
                dedup.push((k.clone(), v.clone()));
            }
        }
        a.consts = dedup;
        cx.part.evaluations += 1;
        let want = expected_ok(&a);
        let got = catch(|| construct(&a));
        let detail = || jobj! {"constructor" => CTORS[a.ctor], "args" => format!("{:?}", a)};
        let site = CTORS[a.ctor];
        let built = match got {
            Err(p) => {
                cx.violation("constructor-panicked", site, format!("{:?} panicked: {}", a, p), detail());
                continue;
            }
            Ok(Err(e)) => {
                if want {
                    cx.violation("well-formed-names-refused", site, format!("{:?} refused: {}", a, e), detail());
                }
                cx.part.count("refused", 1);
                continue;
            }
            Ok(Ok(c)) => {
                if !want {
                    cx.violation("malformed-or-duplicate-name-accepted", site, format!("{:?} was accepted", a), detail());
                    continue;
                }
                cx.part.count("admitted", 1);
                c
            }
        };
        cx.distinct(|h| {
            h.u64(a.ctor as u64);
            h.str(&a.namespace);
            h.str(&a.subsystem);
            h.str(&a.name);
            h.str(&a.help);
            for c in &a.consts {
                h.str(&c.0);
            }
            for v in &a.vars {
                h.str(v);
            }
        });
        // exposure: whatever is admitted is registered where it can be and gathered
        if let Some(c) = built {
            for (rd, reg, _) in registries.iter() {
                // collectors hold Arc'd state; registering the same one in several registries is fine
                let descs: Vec<Desc> = c.desc().into_iter().cloned().collect();
                let clone = ReCollector { descs, inner: std::sync::Arc::new(c.collect()) };
                if reg.register(Box::new(clone)).is_ok() {
                    cx.part.count("registrations", 1);
                }
                let _ = rd;
            }
            if i % 8 == 7 {
                for (rd, reg, _) in registries.iter() {
                    let mfs = reg.gather();
                    check_exposition(cx, &mfs, true, &format!("gather/{}", if rd == "plain" { "plain" } else { "custom-registry" }));
                }
            }
        }
    }
    for (rd, reg, _) in registries.iter() {
        let mfs = reg.gather();
        check_exposition(cx, &mfs, true, &format!("gather/{}", if rd == "plain" { "plain" } else { "custom-registry" }));
    }
    if cx.part.samples.len() < 2 {
        let j = jobj! {"registries" => registries.iter().map(|r| r.0.clone()).collect::<Vec<_>>()};
        cx.part.sample(2, j);
    }
}

/// Re-exposes what a library metric collected at admission time under the metric's own descriptors.
struct ReCollector {
    descs: Vec<Desc>,
    inner: std::sync::Arc<Vec<prometheus::proto::MetricFamily>>,
}

impl Collector for ReCollector {
    fn desc(&self) -> Vec<&Desc> {
        self.descs.iter().collect()
    }
    fn collect(&self) -> Vec<prometheus::proto::MetricFamily> {
        (*self.inner).clone()
    }
}
