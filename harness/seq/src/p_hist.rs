//! C08 — bucket counts follow `value <= upper bound` for every input; a configuration is
//! accepted exactly when its bounds are strictly increasing numbers.
use prometheus::core::Metric;
use prometheus::{exponential_buckets, linear_buckets, Histogram, HistogramOpts, HistogramVec};
use vcore::jobj;
use vcore::json::Json;
use vcore::pools::{self, next_down, next_up};
use vcore::prng::Rng;

use crate::ctx::{catch, Ctx};
use crate::fam::{fbits, same_f64};
use crate::spec::effective_bounds;

fn gen_bounds(rng: &mut Rng, pool: &[f64]) -> Vec<f64> {
    let n = match rng.below(40) {
        0..=3 => 0,
        4..=7 => 1,
        36..=38 => 20 + rng.usize_below(20),
        39 => 100 + rng.usize_below(400),
        _ => 1 + rng.usize_below(8),
    };
    let mut v: Vec<f64> = (0..n)
        .map(|_| match rng.below(4) {
            0 => *rng.pick(pool),
            1 => (rng.below(64) as f64 - 16.0) / 4.0,
            2 => rng.unit_f64() * 10.0,
            _ => (rng.below(2000) as f64 - 1000.0) * 0.001,
        })
        .collect();
    match rng.below(10) {
        0..=5 => {
            // sorted (NaN-free) and mostly strictly increasing
            v.retain(|x| !x.is_nan());
            v.sort_by(|a, b| a.partial_cmp(b).unwrap());
            if rng.chance(4, 5) {
                v.dedup_by(|a, b| a == b);
            }
        }
        6 => {
            v.retain(|x| !x.is_nan());
            v.sort_by(|a, b| b.partial_cmp(a).unwrap());
        }
        7 => {
            if !v.is_empty() {
                let i = rng.usize_below(v.len());
                v.insert(i, f64::NAN);
            }
        }
        _ => {}
    }
    if rng.chance(1, 5) {
        v.push(f64::INFINITY);
    }
    v
}

/// The statement's acceptance rule.
fn acceptable(b: &[f64]) -> bool {
    if b.is_empty() {
        return true;
    }
    b.iter().all(|x| !x.is_nan()) && b.windows(2).all(|w| w[0] < w[1])
}

struct Ref {
    bounds: Vec<f64>,
    count: u64,
    sum: f64,
    cum: Vec<u64>,
}

impl Ref {
    fn new(bounds: Vec<f64>) -> Ref {
        let n = bounds.len();
        Ref { bounds, count: 0, sum: 0.0, cum: vec![0; n] }
    }
    fn add_to_sum(&mut self, v: f64) {
        self.sum += v;
    }
    fn count_value(&mut self, v: f64) {
        self.count += 1;
        for (i, b) in self.bounds.iter().enumerate() {
            if v <= *b {
                self.cum[i] += 1;
            }
        }
    }
}

fn gen_obs(rng: &mut Rng, bounds: &[f64], pool: &[f64]) -> f64 {
    if !bounds.is_empty() && rng.chance(1, 2) {
        let b = *rng.pick(bounds);
        match rng.below(3) {
            0 => b,
            1 => next_up(b),
            _ => next_down(b),
        }
    } else {
        pools::any_f64(rng, pool)
    }
}

fn check_snapshot(cx: &mut Ctx, h: &Histogram, r: &Ref, site: &str, log: &[String], cfg: &[f64]) -> bool {
    let m = h.metric();
    let hp = m.get_histogram();
    let got: Vec<(f64, u64)> = hp.get_bucket().iter().map(|b| (b.upper_bound(), b.cumulative_count())).collect();
    let detail = || jobj! {"configured_bounds" => Json::Arr(cfg.iter().map(|b| Json::Str(fbits(*b))).collect()), "operations" => log.to_vec()};
    if hp.get_sample_count() != r.count {
        cx.violation("sample-count-differs", site, format!("sample_count {} after {} observations", hp.get_sample_count(), r.count), detail());
        return false;
    }
    if !same_f64(hp.get_sample_sum(), r.sum) && !(hp.get_sample_sum() == 0.0 && r.sum == 0.0) {
        cx.violation("sample-sum-differs", site, format!("sample_sum {} but the observations sum (in order) to {}", fbits(hp.get_sample_sum()), fbits(r.sum)), detail());
        return false;
    }
    if got.len() != r.bounds.len() {
        cx.violation("bucket-list-differs", site, format!("{} buckets exported, {} expected ({:?})", got.len(), r.bounds.len(), r.bounds), detail());
        return false;
    }
    for (i, (ub, c)) in got.iter().enumerate() {
        if !same_f64(*ub, r.bounds[i]) || *c != r.cum[i] {
            cx.violation("bucket-count-differs", site, format!("bucket le={} reports {} but {} observations are <= {}", fbits(*ub), c, r.cum[i], fbits(r.bounds[i])), detail());
            return false;
        }
    }
    if h.get_sample_count() != r.count {
        cx.violation("get-sample-count-differs", site, format!("{} vs {}", h.get_sample_count(), r.count), detail());
        return false;
    }
    true
}

pub fn run_case(cx: &mut Ctx) {
    let mut rng = Rng::derive(cx.seed, cx.case.wrapping_mul(2).wrapping_add(0xC08));
    let pool = pools::float_pool();
    // helper functions first: their results are also fed in as configurations
    let mut cfg = gen_bounds(&mut rng, &pool);
    if rng.chance(1, 4) {
        let count = rng.usize_below(12);
        if rng.chance(1, 2) {
            let (start, width) = (pools::any_f64(&mut rng, &[0.0, 1.0, -5.0, 0.1, 1e300, f64::NAN, f64::INFINITY]), pools::any_f64(&mut rng, &[0.0, 1.0, -1.0, 0.25, 1e-9, f64::NAN, f64::INFINITY]));
            let r = catch(|| linear_buckets(start, width, count));
            cx.part.count("bucket_helper_calls", 1);
            match r {
                Err(p) => cx.violation("bucket-helper-panicked", "linear_buckets", format!("linear_buckets({:?},{:?},{}) panicked: {}", start, width, count, p), Json::Null),
                Ok(Err(_)) => {
                    if count >= 1 && width > 0.0 {
                        cx.violation("bucket-helper-refuses-valid-arguments", "linear_buckets", format!("linear_buckets({:?},{:?},{})", start, width, count), Json::Null);
                    }
                }
                Ok(Ok(_)) if start.is_nan() || width.is_nan() => cx.part.count("bucket_helper_nan_arguments_not_judged", 1),
                Ok(Ok(v)) => {
                    let valid = count >= 1 && width > 0.0;
                    let formula_ok = v.len() == count && v.iter().enumerate().all(|(i, b)| {
                        let e = start + width * i as f64;
                        same_f64(*b, e) || (b.is_finite() && e.is_finite() && ((b - e).abs() <= 4.0 * f64::EPSILON * e.abs().max(b.abs())))
                    });
                    if !valid || !formula_ok {
                        cx.violation("bucket-helper-result-wrong", "linear_buckets", format!("linear_buckets({:?},{:?},{}) = {:?}", start, width, count, v), Json::Null);
                    }
                    cfg = v;
                }
            }
        } else {
            let (start, factor) = (pools::any_f64(&mut rng, &[0.0, 1.0, -5.0, 0.1, 1e300, f64::NAN, 5e-324]), pools::any_f64(&mut rng, &[0.0, 1.0, 2.0, 1.0000000000000002, 10.0, f64::NAN, f64::INFINITY]));
            let r = catch(|| exponential_buckets(start, factor, count));
            cx.part.count("bucket_helper_calls", 1);
            match r {
                Err(p) => cx.violation("bucket-helper-panicked", "exponential_buckets", format!("exponential_buckets({:?},{:?},{}) panicked: {}", start, factor, count, p), Json::Null),
                Ok(Err(_)) => {
                    if count >= 1 && start > 0.0 && factor > 1.0 {
                        cx.violation("bucket-helper-refuses-valid-arguments", "exponential_buckets", format!("exponential_buckets({:?},{:?},{})", start, factor, count), Json::Null);
                    }
                }
                Ok(Ok(_)) if start.is_nan() || factor.is_nan() => cx.part.count("bucket_helper_nan_arguments_not_judged", 1),
                Ok(Ok(v)) => {
                    let valid = count >= 1 && start > 0.0 && factor > 1.0;
                    let mut e = start;
                    let mut formula_ok = v.len() == count;
                    for b in &v {
                        if !(same_f64(*b, e) || (b.is_finite() && (b - e).abs() <= 1e-12 * e.abs())) {
                            formula_ok = false;
                        }
                        e *= factor;
                    }
                    if !valid || !formula_ok {
                        cx.violation("bucket-helper-result-wrong", "exponential_buckets", format!("exponential_buckets({:?},{:?},{}) = {:?}", start, factor, count, v), Json::Null);
                    }
                    cfg = v;
                }
            }
        }
    }
    cx.part.evaluations += 1;
    let via_vec = rng.chance(1, 3);
    let opts = HistogramOpts::new("c08_hist", "h").buckets(cfg.clone());
    let cfg_json = || jobj! {"configured_bounds" => Json::Arr(cfg.iter().map(|b| Json::Str(fbits(*b))).collect()), "via_vec" => via_vec};
    let built: Result<Result<Histogram, String>, String> = catch(|| {
        if via_vec {
            HistogramVec::new(opts.clone(), &["l"]).and_then(|v| v.get_metric_with_label_values(&["x"])).map_err(|e| e.to_string())
        } else {
            Histogram::with_opts(opts.clone()).map_err(|e| e.to_string())
        }
    });
    let want = acceptable(&cfg);
    let site = if via_vec { "HistogramVec" } else { "Histogram" };
    let h = match built {
        Err(p) => {
            cx.violation("histogram-constructor-panicked", site, p, cfg_json());
            return;
        }
        Ok(Err(e)) => {
            if want {
                cx.violation("strictly-increasing-bounds-refused", site, format!("{:?}: {}", cfg, e), cfg_json());
            }
            cx.part.count("configurations_refused", 1);
            cx.distinct(|hh| cfg.iter().for_each(|b| hh.u64(b.to_bits())));
            return;
        }
        Ok(Ok(h)) => {
            if !want {
                cx.violation("bad-bucket-configuration-accepted", site, format!("{:?} is not a strictly increasing list of numbers", cfg), cfg_json());
                return;
            }
            h
        }
    };
    cx.part.count("configurations_accepted", 1);
    // relatives of the list that has just been accepted (same thread, same process): the verdict on a
    // configuration must not depend on what was validated before
    if cfg.len() >= 2 && rng.chance(1, 3) {
        let mut rels: Vec<Vec<f64>> = Vec::new();
        let (i, j) = (rng.usize_below(cfg.len()), rng.usize_below(cfg.len()));
        let mut swapped = cfg.clone();
        swapped.swap(i, j);
        rels.push(swapped);
        rels.push(cfg.iter().rev().cloned().collect());
        let mut dup = cfg.clone();
        dup[i] = cfg[j];
        rels.push(dup);
        let mut nan = cfg.clone();
        nan[i] = f64::NAN;
        rels.push(nan);
        let mut rotated = cfg.clone();
        rotated.rotate_left(1);
        rels.push(rotated);
        rels.push(cfg.clone());
        for rel in rels {
            let o = HistogramOpts::new("c08_hist_rel", "h").buckets(rel.clone());
            let got = catch(|| {
                if via_vec {
                    HistogramVec::new(o.clone(), &["l"]).and_then(|v| v.get_metric_with_label_values(&["x"])).map(|_| ())
                } else {
                    Histogram::with_opts(o.clone()).map(|_| ())
                }
            });
            cx.part.count("relatives_of_accepted_configurations_tried", 1);
            let rel_json = || jobj! {"accepted_before" => Json::Arr(cfg.iter().map(|b| Json::Str(fbits(*b))).collect()), "then" => Json::Arr(rel.iter().map(|b| Json::Str(fbits(*b))).collect()), "via_vec" => via_vec};
            match got {
                Err(p) => {
                    cx.violation("histogram-constructor-panicked", site, p, rel_json());
                    return;
                }
                Ok(r) => {
                    if r.is_ok() != acceptable(&rel) {
                        let rule = if r.is_ok() { "bad-bucket-configuration-accepted" } else { "strictly-increasing-bounds-refused" };
                        cx.violation(rule, site, format!("{:?} right after {:?} had been accepted", rel, cfg), rel_json());
                        return;
                    }
                }
            }
        }
    }
    let mut r = Ref::new(effective_bounds(&cfg));
    let mut log: Vec<String> = Vec::new();
    let nops = if cx.case % 64 == 9 { 3000 + rng.usize_below(4000) } else { 5 + rng.usize_below(if cx.thorough { 80 } else { 35 }) };
    let mut local = None;
    let mut local_sum = 0.0f64;
    let mut local_vals: Vec<f64> = Vec::new();
    let mut collects = 0;
    for _ in 0..nops {
        match rng.below(10) {
            0..=4 => {
                let v = gen_obs(&mut rng, &r.bounds, &pool);
                h.observe(v);
                r.add_to_sum(v);
                r.count_value(v);
                log.push(format!("observe({})", fbits(v)));
            }
            5 | 6 => {
                let v = gen_obs(&mut rng, &r.bounds, &pool);
                local.get_or_insert_with(|| h.local()).observe(v);
                local_sum += v;
                local_vals.push(v);
                log.push(format!("local.observe({})", fbits(v)));
            }
            7 => {
                if let Some(l) = &local {
                    l.flush();
                    if !local_vals.is_empty() {
                        r.add_to_sum(local_sum);
                        for v in local_vals.drain(..) {
                            r.count_value(v);
                        }
                    }
                    local_sum = 0.0;
                    log.push("local.flush()".into());
                }
            }
            _ => {
                collects += 1;
                log.push("collect".into());
                if !check_snapshot(cx, &h, &r, site, &log, &cfg) {
                    return;
                }
            }
        }
    }
    if let Some(l) = local.take() {
        drop(l); // drop flushes
        if !local_vals.is_empty() {
            r.add_to_sum(local_sum);
            for v in local_vals.drain(..) {
                r.count_value(v);
            }
        }
        log.push("drop(local)".into());
    }
    for _ in 0..3 {
        collects += 1;
        log.push("collect".into());
        if !check_snapshot(cx, &h, &r, site, &log, &cfg) {
            return;
        }
    }
    cx.part.count("collects_checked", collects);
    cx.part.count("observations", r.count);
    cx.distinct(|hh| {
        cfg.iter().for_each(|b| hh.u64(b.to_bits()));
        hh.u64(r.sum.to_bits());
        hh.u64(r.count);
    });
    if cx.part.samples.len() < 2 {
        let j = jobj! {"configured_bounds" => Json::Arr(cfg.iter().map(|b| Json::Str(fbits(*b))).collect()), "operations" => log};
        cx.part.sample(2, j);
    }
}
