//! C15 — descriptor identity is structural.
use std::collections::{BTreeMap, BTreeSet, HashMap};

use prometheus::core::{Desc, Describer};
use prometheus::Opts;
use vcore::jobj;
use vcore::pools::{self, VALID_LABEL_NAMES};
use vcore::prng::Rng;

use crate::ctx::{catch, Ctx};

#[derive(Clone, Debug, PartialEq, Eq, PartialOrd, Ord)]
struct KeyId {
    fq: String,
    values_in_name_order: Vec<String>,
}

#[derive(Clone, Debug, PartialEq, Eq, PartialOrd, Ord)]
struct KeyDim {
    help: String,
    const_names: BTreeSet<String>,
    var_names: BTreeSet<String>,
}

const NAMES: &[&str] = &["a", "ab", "a_b", "b", "abc", "a_b_c", "b_c", "c", "ab_c", "x:y", "x", "y"];
const HELPS: &[&str] = &["h", "ha", "a", "h\u{ff}", "help", "hel", "p", "x y", "é"];

pub fn run_case(cx: &mut Ctx) {
    let mut rng = Rng::derive(cx.seed, cx.case.wrapping_mul(2).wrapping_add(0xC15));
    let mut by_id: HashMap<u64, KeyId> = HashMap::new();
    let mut id_of: BTreeMap<KeyId, u64> = BTreeMap::new();
    let mut by_dim: HashMap<u64, KeyDim> = HashMap::new();
    let mut dim_of: BTreeMap<KeyDim, u64> = BTreeMap::new();
    let n = if cx.thorough { 400 } else { 150 };
    let mut sample = Vec::new();
    for i in 0..n {
        // name: plain, or joined from namespace/subsystem/name so that different splits give one fq name
        let (fq, via_opts) = if rng.chance(1, 2) {
            (rng.pick(NAMES).to_string(), None)
        } else {
            let ns = rng.pick(&["", "a", "ab", "a_b"]).to_string();
            let sub = rng.pick(&["", "b", "c", "b_c"]).to_string();
            let name = rng.pick(&["c", "b_c", "x", "a"]).to_string();
            (vcore::names::fq_name(&ns, &sub, &name), Some((ns, sub, name)))
        };
        let help = rng.pick(HELPS).to_string();
        let mut labels: Vec<&str> = VALID_LABEL_NAMES[..6].to_vec();
        // "ab": with the helps "h" / "ha" and the label names "ab" / "b" the end of the help text and the
        // start of the first label name can trade a character (the dimension signature must tell them apart)
        labels.push("ab");
        rng.shuffle(&mut labels);
        let nc = rng.usize_below(4);
        let nv = rng.usize_below(3);
        let shift = rng.pick(pools::SHIFT_FAMILIES);
        let mut consts: Vec<(String, String)> = Vec::new();
        for (k, l) in labels[..nc].iter().enumerate() {
            let v = if k < 2 && rng.chance(1, 2) { shift[k].to_string() } else { rng.pick(&["", "a", "b", "ab"]).to_string() };
            consts.push((l.to_string(), v));
        }
        let vars: Vec<String> = labels[nc..nc + nv].iter().map(|s| s.to_string()).collect();
        // build the constant-label map with a random insertion order and a fresh hasher state
        let mut order: Vec<usize> = (0..consts.len()).collect();
        rng.shuffle(&mut order);
        let mut map: HashMap<String, String> = HashMap::new();
        for k in order {
            map.insert(consts[k].0.clone(), consts[k].1.clone());
        }
        let mut vars_shuffled = vars.clone();
        rng.shuffle(&mut vars_shuffled);
        // one descriptor in three is preceded by a refused one built on the same thread (bad or duplicated
        // label name, variable label equal to a constant one, empty help, malformed name): a refusal
        // must leave nothing behind that the next descriptor's identity could pick up
        if rng.chance(1, 3) {
            let other = rng.pick(&["c", "b_c", "x", "a", "zz"]).to_string();
            let mut cm: HashMap<String, String> = HashMap::new();
            let mut vs: Vec<String> = Vec::new();
            let (n, h) = match rng.below(6) {
                0 => {
                    vs.push("not-a-label".to_string());
                    (other, "help".to_string())
                }
                1 => {
                    cm.insert("0bad".to_string(), "v".to_string());
                    (other, "help".to_string())
                }
                2 => {
                    vs.push("dup".to_string());
                    vs.push("dup".to_string());
                    (other, "help".to_string())
                }
                3 => {
                    cm.insert("both".to_string(), rng.pick(&["", "a", "ab"]).to_string());
                    vs.push("both".to_string());
                    (other, "help".to_string())
                }
                4 => (other, String::new()),
                _ => (format!("{}-", other), "help".to_string()),
            };
            let r = catch(|| Desc::new(n.clone(), h.clone(), vs.clone(), cm.clone()));
            cx.part.count("refused_descriptors_interleaved", 1);
            match r {
                Err(p) => {
                    cx.violation("descriptor-constructor-panicked", "Desc::new", p, jobj! {"fq" => n});
                    return;
                }
                // whether such a descriptor is refused is C09's subject, not this property's
                Ok(Ok(_)) => cx.part.count("interleaved_descriptor_accepted_not_judged_here", 1),
                Ok(Err(_)) => {}
            }
        }
        let desc: Result<Desc, String> = match &via_opts {
            Some((ns, sub, name)) => {
                let mut o = Opts::new(name.clone(), help.clone()).namespace(ns.clone()).subsystem(sub.clone());
                // the builder's two ways of supplying labels: whole map / list, or one by one
                if rng.chance(1, 2) {
                    o = o.const_labels(map).variable_labels(vars_shuffled.clone());
                } else {
                    for (k, v) in map {
                        o = o.const_label(k, v);
                    }
                    for v in &vars_shuffled {
                        o = o.variable_label(v.clone());
                    }
                }
                if o.fq_name() != fq {
                    cx.violation("fq-name-differs-from-documented-join", "Opts::fq_name", format!("{:?} vs {:?}", o.fq_name(), fq), jobj! {"fq" => fq.clone()});
                    return;
                }
                o.describe().map_err(|e| e.to_string())
            }
            None => Desc::new(fq.clone(), help.clone(), vars_shuffled.clone(), map).map_err(|e| e.to_string()),
        };
        cx.part.evaluations += 1;
        let desc = match desc {
            Ok(d) => d,
            Err(e) => {
                cx.violation("valid-descriptor-refused", "Desc::new", format!("{} {:?} {:?}: {}", fq, consts, vars, e), jobj! {"fq" => fq.clone()});
                return;
            }
        };
        let mut sorted = consts.clone();
        sorted.sort();
        let kid = KeyId { fq: fq.clone(), values_in_name_order: sorted.iter().map(|c| c.1.clone()).collect() };
        let kdim = KeyDim { help: help.clone(), const_names: consts.iter().map(|c| c.0.clone()).collect(), var_names: vars.iter().cloned().collect() };
        if sample.len() < 3 {
            sample.push(jobj! {"fq_name" => fq.clone(), "help" => help.clone(), "const" => format!("{:?}", consts), "var" => vars_shuffled.clone(), "id" => format!("{:016x}", desc.id), "dim_hash" => format!("{:016x}", desc.dim_hash)});
        }
        let detail = |a: String, b: String| jobj! {"descriptor" => a, "other" => b, "index" => i};
        // id <-> key_id must be a bijection
        if let Some(prev) = by_id.get(&desc.id) {
            if *prev != kid {
                cx.violation("different-descriptors-share-an-id", "id", format!("{:?} and {:?} both have id {:016x}", prev, kid, desc.id), detail(format!("{:?}", kid), format!("{:?}", prev)));
                return;
            }
        }
        if let Some(prev) = id_of.get(&kid) {
            if *prev != desc.id {
                cx.violation("equal-descriptors-get-different-ids", "id", format!("{:?} got ids {:016x} and {:016x} (insertion order / hash state dependence)", kid, prev, desc.id), detail(format!("{:?}", kid), String::new()));
                return;
            }
        }
        by_id.insert(desc.id, kid.clone());
        id_of.insert(kid, desc.id);
        if let Some(prev) = by_dim.get(&desc.dim_hash) {
            if *prev != kdim {
                cx.violation("different-dimensions-share-a-dim-hash", "dim_hash", format!("{:?} and {:?} both have dim_hash {:016x}", prev, kdim, desc.dim_hash), detail(format!("{:?}", kdim), format!("{:?}", prev)));
                return;
            }
        }
        if let Some(prev) = dim_of.get(&kdim) {
            if *prev != desc.dim_hash {
                cx.violation("equal-dimensions-get-different-dim-hashes", "dim_hash", format!("{:?} got {:016x} and {:016x}", kdim, prev, desc.dim_hash), detail(format!("{:?}", kdim), String::new()));
                return;
            }
        }
        by_dim.insert(desc.dim_hash, kdim.clone());
        dim_of.insert(kdim, desc.dim_hash);
        // exposed descriptor fields
        let pairs: Vec<(String, String)> = desc.const_label_pairs.iter().map(|l| (l.name().to_string(), l.value().to_string())).collect();
        if pairs != sorted || desc.fq_name != fq || desc.help != help {
            cx.violation("descriptor-fields-differ-from-arguments", "fields", format!("fq {:?}/{:?} help {:?}/{:?} const pairs {:?}/{:?}", desc.fq_name, fq, desc.help, help, pairs, sorted), detail(String::new(), String::new()));
            return;
        }
    }
    cx.part.count("distinct_ids", by_id.len() as u64);
    cx.part.count("distinct_dim_hashes", by_dim.len() as u64);
    for k in id_of.keys() {
        cx.distinct(|h| {
            h.str(&k.fq);
            for v in &k.values_in_name_order {
                h.str(v);
            }
        });
    }
    if cx.part.samples.len() < 2 {
        cx.part.sample(2, vcore::json::Json::Arr(sample));
    }
}
