//! C04 / C13 own generator: families a custom collector could supply (all types the
//! encoders support, adversarial strings, every f64 class, timestamps, explicit +Inf
//! buckets, huge counts), fed straight to the round-trip oracles.
use prometheus::{Encoder, ProtobufEncoder};
use vcore::jobj;
use vcore::pbwire;
use vcore::pools::{self, VALID_LABEL_NAMES, VALID_METRIC_NAMES};
use vcore::prng::Rng;

use crate::ctx::Ctx;
use crate::expo::{pb_roundtrip, text_roundtrip};
use crate::fam::{build, families_json, Hist, MType, Summ, M, MF};

fn any_u64(rng: &mut Rng) -> u64 {
    match rng.below(6) {
        0 => 0,
        1 => rng.below(10),
        2 => u64::MAX,
        3 => (1 << 53) + rng.below(3),
        4 => rng.next_u64(),
        _ => rng.below(1_000_000),
    }
}

fn any_ts(rng: &mut Rng) -> i64 {
    match rng.below(8) {
        0..=3 => 0,
        4 => rng.below(2_000_000_000_000) as i64,
        5 => -(rng.below(1000) as i64) - 1,
        6 => i64::MAX,
        _ => i64::MIN,
    }
}

pub fn gen_family(rng: &mut Rng, idx: usize, fpool: &[f64]) -> MF {
    let typ = *rng.pick(&[MType::Counter, MType::Gauge, MType::Histogram, MType::Summary]);
    let name = format!("{}{}", rng.pick(VALID_METRIC_NAMES), if rng.chance(1, 2) { format!("_{}", idx) } else { format!(":f{}", idx) });
    let help = if rng.chance(1, 8) { String::new() } else { pools::any_string(rng) };
    let mut label_names: Vec<&str> = VALID_LABEL_NAMES.iter().copied().collect();
    rng.shuffle(&mut label_names);
    let nl = match rng.below(8) {
        0 | 1 => 0,
        7 => label_names.len(),
        _ => 1 + rng.usize_below(3),
    };
    let nm = 1 + rng.usize_below(4);
    let mut metrics = Vec::new();
    for _ in 0..nm {
        let mut m = M::default();
        m.labels = label_names[..nl].iter().map(|n| (n.to_string(), pools::any_string(rng))).collect();
        m.ts = any_ts(rng);
        match typ {
            MType::Counter => m.counter = Some(pools::any_f64(rng, fpool)),
            MType::Gauge => m.gauge = Some(pools::any_f64(rng, fpool)),
            MType::Histogram => {
                let nb = rng.usize_below(7);
                let mut buckets: Vec<(f64, u64)> = (0..nb).map(|_| (pools::any_f64(rng, fpool), any_u64(rng))).collect();
                if rng.chance(1, 2) {
                    buckets.retain(|b| !b.0.is_nan());
                    buckets.sort_by(|a, b| a.0.partial_cmp(&b.0).unwrap());
                }
                if rng.chance(1, 4) {
                    buckets.push((f64::INFINITY, any_u64(rng)));
                }
                m.hist = Some(Hist { count: any_u64(rng), sum: pools::any_f64(rng, fpool), buckets });
            }
            MType::Summary => {
                let nq = rng.usize_below(5);
                m.summ = Some(Summ { count: any_u64(rng), sum: pools::any_f64(rng, fpool), quantiles: (0..nq).map(|_| (pools::any_f64(rng, fpool), pools::any_f64(rng, fpool))).collect() });
            }
            MType::Untyped => {}
        }
        metrics.push(m);
    }
    MF { name, help, typ, metrics }
}

/// The same families with exactly one detail changed in each (one label name, one label value, the
/// help, one value, one bucket bound, one cumulative count, the count, the sum, one quantile, the
/// timestamp): whatever an encoder remembers from the previous call must not leak into this one.
fn siblings(rng: &mut Rng, mfs: &[MF], fpool: &[f64]) -> Vec<MF> {
    let mut out = mfs.to_vec();
    for f in out.iter_mut() {
        let mi = rng.usize_below(f.metrics.len().max(1));
        for _attempt in 0..6 {
            let before = format!("{:?}", f);
            match rng.below(10) {
                0 => {
                    // rename one label (in every sample of the family)
                    if let Some(old) = f.metrics.first().and_then(|m| m.labels.first()).map(|l| l.0.clone()) {
                        let new = format!("{}_r", old);
                        if !f.metrics.iter().any(|m| m.labels.iter().any(|l| l.0 == new)) {
                            for m in f.metrics.iter_mut() {
                                for l in m.labels.iter_mut() {
                                    if l.0 == old {
                                        l.0 = new.clone();
                                    }
                                }
                            }
                        }
                    }
                }
                1 => {
                    if let Some(l) = f.metrics.get_mut(mi).and_then(|m| m.labels.last_mut()) {
                        l.1.push('x');
                    }
                }
                2 => f.help.push_str(" (2)"),
                3 => {
                    if let Some(m) = f.metrics.get_mut(mi) {
                        m.ts = m.ts.wrapping_add(1);
                    }
                }
                4 => {
                    if let Some(m) = f.metrics.get_mut(mi) {
                        let v = pools::any_f64(rng, fpool);
                        if m.counter.is_some() {
                            m.counter = Some(v);
                        } else if m.gauge.is_some() {
                            m.gauge = Some(v);
                        }
                    }
                }
                5 => {
                    if let Some(h) = f.metrics.get_mut(mi).and_then(|m| m.hist.as_mut()) {
                        if !h.buckets.is_empty() {
                            let i = rng.usize_below(h.buckets.len());
                            h.buckets[i].0 = pools::any_f64(rng, fpool);
                        }
                    }
                }
                6 => {
                    if let Some(h) = f.metrics.get_mut(mi).and_then(|m| m.hist.as_mut()) {
                        if !h.buckets.is_empty() {
                            let i = rng.usize_below(h.buckets.len());
                            h.buckets[i].1 = h.buckets[i].1.wrapping_add(1);
                        }
                    }
                }
                7 => {
                    if let Some(m) = f.metrics.get_mut(mi) {
                        if let Some(h) = m.hist.as_mut() {
                            h.count = h.count.wrapping_add(1);
                        } else if let Some(q) = m.summ.as_mut() {
                            q.count = q.count.wrapping_add(1);
                        }
                    }
                }
                8 => {
                    if let Some(m) = f.metrics.get_mut(mi) {
                        let v = pools::any_f64(rng, fpool);
                        if let Some(h) = m.hist.as_mut() {
                            h.sum = v;
                        } else if let Some(q) = m.summ.as_mut() {
                            q.sum = v;
                        }
                    }
                }
                _ => {
                    if let Some(q) = f.metrics.get_mut(mi).and_then(|m| m.summ.as_mut()) {
                        if !q.quantiles.is_empty() {
                            let i = rng.usize_below(q.quantiles.len());
                            if rng.chance(1, 2) {
                                q.quantiles[i].0 = pools::any_f64(rng, fpool);
                            } else {
                                q.quantiles[i].1 = pools::any_f64(rng, fpool);
                            }
                        }
                    }
                }
            }
            if format!("{:?}", f) != before {
                break;
            }
        }
    }
    out
}

pub fn run_case(cx: &mut Ctx) {
    let mut rng = Rng::derive(cx.seed, cx.case.wrapping_mul(2).wrapping_add(0xC04));
    let fpool = pools::float_pool();
    let nf = match rng.below(10) {
        0 => 12 + rng.usize_below(20),
        _ => 1 + rng.usize_below(4),
    };
    let mut mfs: Vec<MF> = (0..nf).map(|i| gen_family(&mut rng, i, &fpool)).collect();
    // one case in forty: sizes well above the usual (many labels, many buckets, many samples, a very long
    // string) so that capacity-growth paths and size thresholds of the encoders are crossed
    if cx.case % 40 == 7 {
        cx.part.count("oversized_families", 1);
        let f = &mut mfs[0];
        match if cx.case % 400 == 47 { 9 } else { rng.below(4) } {
            9 => {
                // one family above 2 MiB on the wire: a few dozen samples with a ~100 KB label value each
                let m = f.metrics[0].clone();
                let big: String = std::iter::repeat("0123456789abcdef").take(6400).collect();
                for i in 0..(22 + rng.usize_below(6)) {
                    let mut c = m.clone();
                    c.labels.push(("blob".to_string(), format!("{}{}", i, big)));
                    f.metrics.push(c);
                }
                cx.part.count("families_above_2_mib", 1);
            }
            0 => {
                let m = f.metrics[0].clone();
                for i in 0..(300 + rng.usize_below(1200)) {
                    let mut c = m.clone();
                    c.labels.push(("idx".to_string(), format!("{}", i)));
                    f.metrics.push(c);
                }
            }
            1 => {
                for m in f.metrics.iter_mut() {
                    m.labels = (0..(70 + rng.usize_below(200))).map(|i| (format!("l{}", i), pools::any_string(&mut rng))).collect();
                }
            }
            2 => {
                f.typ = MType::Histogram;
                for m in f.metrics.iter_mut() {
                    m.counter = None;
                    m.gauge = None;
                    m.summ = None;
                    let n = 260 + rng.usize_below(800);
                    m.hist = Some(Hist { count: n as u64 * 3, sum: 1.5, buckets: (0..n).map(|i| (i as f64 * 0.25, i as u64 * 2)).collect() });
                }
            }
            _ => {
                let unit = pools::any_string(&mut rng);
                let long: String = std::iter::repeat(if unit.is_empty() { "é\\\"\n" } else { unit.as_str() }).take(70_000 / (unit.len().max(1)) + 2).collect();
                f.help = long.clone();
                if let Some(m) = f.metrics.first_mut() {
                    m.labels.push(("long".to_string(), long));
                }
            }
        }
    }
    let pmfs: Vec<prometheus::proto::MetricFamily> = mfs.iter().map(build).collect();
    cx.part.evaluations += 1;
    cx.part.count("hand_built_families", nf as u64);
    if cx.owns("C04") {
        text_roundtrip(cx, &mfs, &pmfs, "hand-built");
        if cx.case % 40 != 7 && rng.chance(1, 2) {
            let sib = siblings(&mut rng, &mfs, &fpool);
            let psib: Vec<prometheus::proto::MetricFamily> = sib.iter().map(build).collect();
            cx.part.count("sibling_families_encoded_right_after", sib.len() as u64);
            text_roundtrip(cx, &sib, &psib, "sibling-of-hand-built");
            text_roundtrip(cx, &mfs, &pmfs, "hand-built-again");
        }
        // error path: a refused family later in the slice. Whatever the encoder does with the families
        // before it, it may only append, and the entry points must agree.
        let mut bad = mfs.clone();
        let pos = rng.usize_below(bad.len());
        bad[pos].metrics.clear();
        let pbad: Vec<prometheus::proto::MetricFamily> = bad.iter().map(build).collect();
        let prefix = "# earlier scrape \u{1F600}\nm 1\n";
        let mut v = prefix.as_bytes().to_vec();
        let mut s = String::from(prefix);
        let enc = prometheus::TextEncoder::new();
        let r1 = enc.encode(&pbad, &mut v);
        let r2 = enc.encode_utf8(&pbad, &mut s);
        cx.part.count("text_error_paths_checked", 1);
        let detail = jobj! {"families" => families_json(&bad), "refused_index" => pos};
        if r1.is_ok() || r2.is_ok() {
            cx.violation("text-family-without-samples-accepted", "error-path", format!("encode {:?}, encode_utf8 {:?}", r1.is_ok(), r2.is_ok()), detail);
        } else if !v.starts_with(prefix.as_bytes()) || !s.starts_with(prefix) {
            cx.violation("text-encoder-does-not-only-append", "error-path", format!("after a refused family the caller's buffer no longer starts with what it held before (Vec: {}, String: {})", v.starts_with(prefix.as_bytes()), s.starts_with(prefix)), detail);
        } else if v != s.as_bytes() {
            cx.violation("text-entry-points-disagree", "error-path", "encode and encode_utf8 leave different bytes behind when a family is refused".into(), detail);
        }
    }
    if cx.owns("C13") {
        pb_roundtrip(cx, &mfs, &pmfs, "hand-built");
        if cx.case % 40 != 7 && rng.chance(1, 2) {
            let sib = siblings(&mut rng, &mfs, &fpool);
            let psib: Vec<prometheus::proto::MetricFamily> = sib.iter().map(build).collect();
            cx.part.count("sibling_families_encoded_right_after", sib.len() as u64);
            pb_roundtrip(cx, &sib, &psib, "sibling-of-hand-built");
            pb_roundtrip(cx, &mfs, &pmfs, "hand-built-again");
        }
        // a family without a name or without samples is refused, and nothing of it is written
        let mut bad = mfs.clone();
        let pos = rng.usize_below(bad.len());
        let how = rng.below(2);
        if rng.chance(1, 4) {
            // a long, non-ASCII help text on the refused family (error paths that render the family)
            bad[pos].help = format!("{}{}", "x".repeat(rng.usize_below(8)), "é日".repeat(60 + rng.usize_below(200)));
        }
        if how == 0 {
            bad[pos].name = String::new();
        } else {
            bad[pos].metrics.clear();
        }
        let pbad: Vec<prometheus::proto::MetricFamily> = bad.iter().map(build).collect();
        let mut bytes = Vec::new();
        let r = ProtobufEncoder::new().encode(&pbad, &mut bytes);
        cx.part.count("pb_refusals_checked", 1);
        let detail = jobj! {"families" => families_json(&bad), "refused_index" => pos};
        match r {
            Ok(()) => cx.violation("pb-family-without-name-or-samples-accepted", if how == 0 { "empty-name" } else { "no-samples" }, format!("family {} was encoded", pos), detail),
            Err(_) => match pbwire::decode_delimited_families(&bytes) {
                Ok(d) if d.len() == pos => {}
                Ok(d) => cx.violation("pb-refusal-leaves-wrong-output", "prefix", format!("{} complete messages written before the refused family at index {}", d.len(), pos), detail),
                Err(e) => cx.violation("pb-refusal-leaves-partial-message", "prefix", e, detail),
            },
        }
    }
    cx.distinct(|h| {
        for f in &mfs {
            h.str(&f.name);
            h.str(&f.help);
            h.u64(f.typ.number() as u64);
            for m in &f.metrics {
                for l in &m.labels {
                    h.str(&l.1);
                }
                h.u64(m.ts as u64);
                h.u64(m.counter.or(m.gauge).map(|v| v.to_bits()).unwrap_or(0));
            }
        }
    });
    if cx.part.samples.len() < 2 {
        let j = jobj! {"hand_built_families" => families_json(&mfs[..1])};
        cx.part.sample(2, j);
    }
}
