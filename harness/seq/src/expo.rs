//! E5 — exposition invariant monitors, called on every gather()/collect() result any
//! workload produces, plus the C04 (text) and C13 (protobuf) round-trip oracles.
use prometheus::proto;
use prometheus::{Encoder, ProtobufEncoder, TextEncoder};
use vcore::jobj;
use vcore::json::Json;
use vcore::names::{label_name_ok, metric_name_ok};
use vcore::pbwire;
use vcore::textparse::{self, Line};

use crate::ctx::{trunc, Ctx};
use crate::fam::{extract_all, families_json, fbits, same_f64, MType, MF};

/// Structural rules on one exposition. `gathered`: produced by Registry::gather (ordering rules apply).
pub fn check_exposition(cx: &mut Ctx, pmfs: &[proto::MetricFamily], gathered: bool, what: &str) {
    let mfs = extract_all(pmfs);
    cx.part.count("expositions_checked", 1);
    cx.part.count("families_checked", mfs.len() as u64);
    let detail = || jobj! {"where" => what, "families" => families_json(&mfs)};
    let mut names_valid = true;
    for (i, mf) in mfs.iter().enumerate() {
        cx.part.count("samples_checked", mf.metrics.len() as u64);
        // C09: names
        if !metric_name_ok(&mf.name) {
            names_valid = false;
            cx.owned_violation_with("C09", "exposed-metric-name-invalid", what, format!("gather exposes metric name {:?}", mf.name), &detail);
        }
        for m in &mf.metrics {
            for (k, (n, _)) in m.labels.iter().enumerate() {
                if !label_name_ok(n) {
                    names_valid = false;
                    cx.owned_violation_with("C09", "exposed-label-name-invalid", what, format!("sample of {} carries label name {:?}", mf.name, n), &detail);
                }
                if m.labels[..k].iter().any(|(o, _)| o == n) {
                    names_valid = false;
                    cx.owned_violation_with("C09", "exposed-label-name-twice", what, format!("sample of {} carries label name {:?} twice: {:?}", mf.name, n, m.labels), &detail);
                }
            }
            // C14: payload matches the declared type
            let present = [m.counter.is_some(), m.gauge.is_some(), m.summ.is_some(), m.untyped.is_some(), m.hist.is_some()];
            let want = match mf.typ {
                MType::Counter => 0,
                MType::Gauge => 1,
                MType::Summary => 2,
                MType::Untyped => 3,
                MType::Histogram => 4,
            };
            if !present[want] || present.iter().enumerate().any(|(k, p)| *p && k != want) {
                let mixed = cx.mixed_kind_names.iter().any(|n| mf.name == *n || mf.name.ends_with(&format!("_{}", n)));
                cx.owned_violation_with(
                    "C14",
                    if mixed { "gather-merges-same-name-collectors-of-different-kinds" } else { "sample-payload-does-not-match-family-type" },
                    if mixed { "registry::gather" } else { what },
                    format!("family {} is declared {} but a sample carries counter={:?} gauge={:?} summary={} untyped={:?} histogram={}", mf.name, mf.typ.text(), m.counter, m.gauge, m.summ.is_some(), m.untyped, m.hist.is_some()), &detail);
            }
        }
        if gathered {
            // C07: canonical order, completeness side conditions
            if i > 0 && mfs[i - 1].name >= mf.name {
                cx.owned_violation_with("C07", "family-names-not-strictly-increasing", what, format!("{:?} is followed by {:?}", mfs[i - 1].name, mf.name), &detail);
            }
            if mf.metrics.is_empty() {
                cx.owned_violation_with("C07", "empty-family-gathered", what, format!("family {} has no samples", mf.name), &detail);
            }
            for w in mf.metrics.windows(2) {
                let (a, b) = (&w[0], &w[1]);
                let na: Vec<&String> = a.labels.iter().map(|l| &l.0).collect();
                let nb: Vec<&String> = b.labels.iter().map(|l| &l.0).collect();
                if na == nb {
                    let va: Vec<&String> = a.labels.iter().map(|l| &l.1).collect();
                    let vb: Vec<&String> = b.labels.iter().map(|l| &l.1).collect();
                    if va > vb {
                        cx.owned_violation_with("C07", "samples-not-ordered-by-label-values", what, format!("in {} sample {:?} precedes {:?}", mf.name, va, vb), &detail);
                    }
                }
            }
        }
        for (a, ma) in mf.metrics.iter().enumerate() {
            if mf.metrics[..a].iter().any(|o| o.labels == ma.labels) {
                cx.owned_violation_with("C07", "label-set-exposed-twice", what, format!("family {} has two samples with labels {:?}", mf.name, ma.labels), &detail);
            }
        }
    }
    if names_valid && !mfs.is_empty() && mfs.iter().all(|f| f.typ != MType::Untyped && !f.metrics.is_empty()) {
        if cx.owns("C04") {
            text_roundtrip(cx, &mfs, pmfs, what);
        }
        if cx.owns("C13") {
            pb_roundtrip(cx, &mfs, pmfs, what);
        }
    }
}

#[derive(Debug)]
enum ELine {
    Help(String, String),
    Type(String, String),
    Sample { name: String, labels: Vec<(String, String)>, extra: Option<(&'static str, f64)>, value: f64, ts: Option<i64> },
}

fn expected_lines(mfs: &[MF]) -> Vec<ELine> {
    let mut out = Vec::new();
    for mf in mfs {
        if !mf.help.is_empty() {
            // the format skips blanks and tabs between the name and the docstring
            out.push(ELine::Help(mf.name.clone(), mf.help.trim_start_matches([' ', '\t']).to_string()));
        }
        out.push(ELine::Type(mf.name.clone(), mf.typ.text().to_string()));
        for m in &mf.metrics {
            let ts = if m.ts != 0 { Some(m.ts) } else { None };
            let s = |suffix: &str, extra: Option<(&'static str, f64)>, value: f64| ELine::Sample { name: format!("{}{}", mf.name, suffix), labels: m.labels.clone(), extra, value, ts };
            match mf.typ {
                MType::Counter => out.push(s("", None, m.counter.unwrap_or(0.0))),
                MType::Gauge => out.push(s("", None, m.gauge.unwrap_or(0.0))),
                MType::Untyped => out.push(s("", None, m.untyped.unwrap_or(0.0))),
                MType::Histogram => {
                    let h = m.hist.clone().unwrap_or(crate::fam::Hist { count: 0, sum: 0.0, buckets: vec![] });
                    let mut inf = false;
                    for (ub, c) in &h.buckets {
                        out.push(s("_bucket", Some(("le", *ub)), *c as f64));
                        if *ub == f64::INFINITY {
                            inf = true;
                        }
                    }
                    if !inf {
                        out.push(s("_bucket", Some(("le", f64::INFINITY)), h.count as f64));
                    }
                    out.push(s("_sum", None, h.sum));
                    out.push(s("_count", None, h.count as f64));
                }
                MType::Summary => {
                    let sm = m.summ.clone().unwrap_or(crate::fam::Summ { count: 0, sum: 0.0, quantiles: vec![] });
                    for (q, v) in &sm.quantiles {
                        out.push(s("", Some(("quantile", *q)), *v));
                    }
                    out.push(s("_sum", None, sm.sum));
                    out.push(s("_count", None, sm.count as f64));
                }
            }
        }
    }
    out
}

fn line_matches(e: &ELine, p: &Line) -> Result<(), String> {
    match (e, p) {
        (ELine::Help(n, t), Line::Help { name, text }) => {
            if n == name && t == text {
                Ok(())
            } else {
                Err(format!("expected HELP {:?} {:?}, parsed HELP {:?} {:?}", n, t, name, text))
            }
        }
        (ELine::Type(n, t), Line::Type { name, typ }) => {
            if n == name && t == typ {
                Ok(())
            } else {
                Err(format!("expected TYPE {} {}, parsed TYPE {} {}", n, t, name, typ))
            }
        }
        (ELine::Sample { name, labels, extra, value, ts }, Line::Sample(s)) => {
            if *name != s.name {
                return Err(format!("expected sample of {:?}, parsed sample of {:?}", name, s.name));
            }
            let want_n = labels.len() + extra.is_some() as usize;
            if s.labels.len() != want_n || s.labels[..labels.len()] != labels[..] {
                return Err(format!("sample {}: expected labels {:?}{}, parsed {:?}", name, labels, extra.map(|(n, v)| format!(" + {}={:?}", n, v)).unwrap_or_default(), s.labels));
            }
            if let Some((en, ev)) = extra {
                let (pn, pv) = &s.labels[labels.len()];
                let parsed = textparse::parse_value(pv).map_err(|e| format!("sample {}: {} label value {:?} is not a float: {}", name, en, pv, e))?;
                if pn != en || !same_f64(parsed, *ev) {
                    return Err(format!("sample {}: expected {}={}, parsed {}={:?}", name, en, fbits(*ev), pn, pv));
                }
            }
            if !same_f64(*value, s.value) {
                return Err(format!("sample {} {:?}: expected value {}, parsed {}", name, s.labels, fbits(*value), fbits(s.value)));
            }
            if *ts != s.timestamp {
                return Err(format!("sample {}: expected timestamp {:?}, parsed {:?}", name, ts, s.timestamp));
            }
            Ok(())
        }
        (e, p) => Err(format!("expected {:?}, parsed {:?}", e, p)),
    }
}

/// C04: encode with all three entry points, parse with the independent parser, compare line by line.
/// A sink that never fails for good: it takes only part of each buffer and reports `ErrorKind::Interrupted`
/// now and then (never twice in a row). A caller that writes the way `write_all` does delivers every byte
/// exactly once, in order.
pub struct Choppy {
    pub got: Vec<u8>,
    state: u64,
    cap: usize,
    interrupted: bool,
    pub calls: u64,
    pub interrupts: u64,
}

impl Choppy {
    pub fn new(seed: u64, total: usize) -> Choppy {
        let cap = if total > 20_000 { 4096 } else { [1usize, 3, 7, 64, 1000][(seed % 5) as usize] };
        Choppy { got: Vec::new(), state: seed | 1, cap, interrupted: false, calls: 0, interrupts: 0 }
    }
}

impl std::io::Write for Choppy {
    fn write(&mut self, buf: &[u8]) -> std::io::Result<usize> {
        self.calls += 1;
        self.state = self.state.wrapping_mul(6364136223846793005).wrapping_add(1442695040888963407);
        let r = (self.state >> 33) as usize;
        if r % 4 == 0 && !self.interrupted {
            self.interrupted = true;
            self.interrupts += 1;
            return Err(std::io::Error::new(std::io::ErrorKind::Interrupted, "injected EINTR"));
        }
        self.interrupted = false;
        if buf.is_empty() {
            return Ok(0);
        }
        let n = buf.len().min(1 + (r / 4) % self.cap);
        self.got.extend_from_slice(&buf[..n]);
        Ok(n)
    }
    fn flush(&mut self) -> std::io::Result<()> {
        Ok(())
    }
}

/// A sink that takes `left` bytes (in short writes) and then fails for good.
pub struct Breaks {
    pub left: usize,
}

impl std::io::Write for Breaks {
    fn write(&mut self, buf: &[u8]) -> std::io::Result<usize> {
        if self.left == 0 {
            return Err(std::io::Error::new(std::io::ErrorKind::Other, "injected sink failure"));
        }
        let n = buf.len().min(self.left).min(5);
        self.left -= n;
        Ok(n)
    }
    fn flush(&mut self) -> std::io::Result<()> {
        Ok(())
    }
}

/// Fault paths of an `io::Write` encoder: short writes and EINTR must not lose, repeat or reorder a byte, and a
/// sink that broke in the middle of one call must leave nothing behind that shows in the next call on the same
/// encoder value (and thread).
fn sink_faults<E: prometheus::Encoder>(cx: &mut Ctx, enc: &E, pmfs: &[proto::MetricFamily], bytes: &[u8], what: &str, rule_prefix: &str, detail: &dyn Fn() -> vcore::json::Json) {
    if bytes.len() > if cfg!(miri) { 3_000 } else { 300_000 } {
        return;
    }
    let seed = cx.seed ^ cx.case.wrapping_mul(0x9E37_79B9_7F4A_7C15) ^ bytes.len() as u64;
    let mut sink = Choppy::new(seed, bytes.len());
    let r = enc.encode(pmfs, &mut sink);
    cx.part.count("choppy_sink_encodes", 1);
    cx.part.count("choppy_sink_short_writes", sink.calls);
    cx.part.count("choppy_sink_interrupts", sink.interrupts);
    if let Err(e) = r {
        cx.violation(&format!("{}-encode-fails-on-short-writes", rule_prefix), what, format!("a sink that takes part of each buffer and reports EINTR now and then (never fails for good) made encode return {:?}", e.to_string()), detail());
        return;
    }
    if sink.got != bytes {
        let at = sink.got.iter().zip(bytes.iter()).position(|(a, b)| a != b).unwrap_or(sink.got.len().min(bytes.len()));
        cx.violation(&format!("{}-bytes-differ-on-short-writes", rule_prefix), what, format!("through a sink with short writes and EINTR {} bytes arrived, {} expected; first difference at byte {}", sink.got.len(), bytes.len(), at), detail());
        return;
    }
    if !bytes.is_empty() {
        let cut = (seed >> 7) as usize % bytes.len();
        let mut broken = Breaks { left: cut };
        let r = enc.encode(pmfs, &mut broken);
        cx.part.count("broken_sink_then_next_call", 1);
        if r.is_ok() {
            cx.violation(&format!("{}-encode-ok-on-broken-sink", rule_prefix), what, format!("the sink failed for good after {} of {} bytes but encode returned Ok", cut, bytes.len()), detail());
            return;
        }
        let mut again: Vec<u8> = Vec::new();
        let r = enc.encode(pmfs, &mut again);
        if r.is_err() || again != bytes {
            cx.violation(&format!("{}-call-after-broken-sink-differs", rule_prefix), what, format!("after a call whose sink broke at byte {}, the next call on the same encoder produced {} bytes ({} expected, ok={})", cut, again.len(), bytes.len(), r.is_ok()), detail());
        }
    }
}

pub fn text_roundtrip(cx: &mut Ctx, mfs: &[MF], pmfs: &[proto::MetricFamily], what: &str) {
    cx.part.count("text_roundtrips", 1);
    let enc = TextEncoder::new();
    let detail = |text: &str| jobj! {"where" => what, "families" => families_json(mfs), "text" => trunc(text, 4000)};
    let mut bytes: Vec<u8> = Vec::new();
    if let Err(e) = enc.encode(pmfs, &mut bytes) {
        cx.violation("text-encode-fails-on-valid-families", what, format!("encode returned {:?}", e.to_string()), detail(""));
        return;
    }
    let text = match String::from_utf8(bytes.clone()) {
        Ok(t) => t,
        Err(e) => {
            cx.violation("text-output-not-utf8", what, format!("{}", e), detail(""));
            return;
        }
    };
    // the three entry points agree and only append
    let prefix = "# pre-existing \u{1F600} content\n";
    let mut s = String::from(prefix);
    let r2 = enc.encode_utf8(pmfs, &mut s);
    let r3 = enc.encode_to_string(pmfs);
    if r2.is_err() || r3.is_err() {
        cx.violation("text-entry-points-disagree", what, format!("encode ok, encode_utf8 {:?}, encode_to_string {:?}", r2.is_ok(), r3.is_ok()), detail(&text));
    } else {
        if !s.starts_with(prefix) || s[prefix.len()..] != text {
            cx.violation("encode_utf8-does-not-append-the-same-bytes", what, "encode_utf8 into a non-empty String changed the prefix or produced different bytes than encode".into(), detail(&s));
        }
        if r3.unwrap() != text {
            cx.violation("encode_to_string-differs-from-encode", what, "different bytes".into(), detail(&text));
        }
        let mut v = prefix.as_bytes().to_vec();
        let _ = enc.encode(pmfs, &mut v);
        if !v.starts_with(prefix.as_bytes()) || v[prefix.len()..] != bytes[..] {
            cx.violation("encode-does-not-append-the-same-bytes", what, "encode into a non-empty Vec changed the prefix or produced different bytes".into(), detail(&text));
        }
    }
    sink_faults(cx, &enc, pmfs, &bytes, what, "text", &|| detail(&text));
    let parsed = match textparse::parse(&text) {
        Ok(p) => p,
        Err(e) => {
            cx.violation("text-output-does-not-parse", what, e, detail(&text));
            return;
        }
    };
    let expected = expected_lines(mfs);
    cx.part.count("text_lines_compared", expected.len() as u64);
    for (i, e) in expected.iter().enumerate() {
        match parsed.get(i) {
            None => {
                cx.violation("text-output-lacks-lines", what, format!("{} lines expected, {} parsed; first missing: {:?}", expected.len(), parsed.len(), e), detail(&text));
                return;
            }
            Some(p) => {
                if let Err(msg) = line_matches(e, p) {
                    let rule = match e {
                        ELine::Help(..) => "text-help-line-differs",
                        ELine::Type(..) => "text-type-line-differs",
                        ELine::Sample { .. } => "text-sample-line-differs",
                    };
                    cx.violation(rule, what, format!("line {}: {}", i + 1, msg), detail(&text));
                    return;
                }
            }
        }
    }
    if parsed.len() > expected.len() {
        cx.violation("text-output-has-extra-lines", what, format!("{} lines expected, {} parsed; first extra: {:?}", expected.len(), parsed.len(), parsed[expected.len()]), detail(&text));
    }
    if cx.thorough && cx.part.counters.get("text_dumped_for_python").copied().unwrap_or(0) < 400 {
        dump_for_python(cx, &expected, &text);
    }
}

/// Thorough tier: dump (text, expected values as hex bits) for the independent python re-parser.
fn dump_for_python(cx: &mut Ctx, expected: &[ELine], text: &str) {
    let dir = match std::env::var("VERIF_C04_DUMP_DIR") {
        Ok(d) => d,
        Err(_) => return,
    };
    let vals: Vec<Json> = expected
        .iter()
        .filter_map(|e| match e {
            ELine::Sample { name, value, extra, .. } => Some(jobj! {"name" => name.clone(), "bits" => format!("{:016x}", value.to_bits()), "extra_bits" => extra.map(|(_, v)| format!("{:016x}", v.to_bits()))}),
            _ => None,
        })
        .collect();
    let n = cx.part.counters.get("text_dumped_for_python").copied().unwrap_or(0);
    let j = jobj! {"text" => text, "samples" => Json::Arr(vals)};
    let path = format!("{}/c04-{}-{}-{}.json", dir, cx.seed, cx.case, n);
    if std::fs::write(&path, j.to_string()).is_ok() {
        cx.part.count("text_dumped_for_python", 1);
    }
}

fn cmp_f64_field(what: &str, got: Option<f64>, want: f64) -> Result<(), String> {
    let g = got.unwrap_or(0.0);
    if same_f64(g, want) {
        Ok(())
    } else {
        Err(format!("{}: decoded {} but the family holds {}", what, fbits(g), fbits(want)))
    }
}

fn compare_family(dec: &pbwire::Msg, mf: &MF) -> Result<(), String> {
    if dec.str(1).unwrap_or("") != mf.name {
        return Err(format!("name: decoded {:?}, family {:?}", dec.str(1), mf.name));
    }
    if dec.str(2).unwrap_or("") != mf.help {
        return Err(format!("help: decoded {:?}, family {:?}", dec.str(2), mf.help));
    }
    if dec.i64(3).unwrap_or(0) != mf.typ.number() {
        return Err(format!("type: decoded {:?}, family {}", dec.i64(3), mf.typ.number()));
    }
    let dms = dec.msgs(4);
    if dms.len() != mf.metrics.len() {
        return Err(format!("{} metrics decoded, {} in the family", dms.len(), mf.metrics.len()));
    }
    for (k, (dm, m)) in dms.iter().zip(mf.metrics.iter()).enumerate() {
        let w = |s: &str| format!("metric {}: {}", k, s);
        let dl: Vec<(String, String)> = dm.msgs(1).iter().map(|l| (l.str(1).unwrap_or("").to_string(), l.str(2).unwrap_or("").to_string())).collect();
        if dl != m.labels {
            return Err(w(&format!("labels decoded {:?}, family {:?}", dl, m.labels)));
        }
        for (num, name, have) in [(2u32, "gauge", m.gauge), (3, "counter", m.counter), (5, "untyped", m.untyped)] {
            match (dm.msg(num), have) {
                (None, None) => {}
                (Some(d), Some(v)) => cmp_f64_field(&w(name), d.double(1), v)?,
                (d, h) => return Err(w(&format!("{} present in stream: {}, in family: {}", name, d.is_some(), h.is_some()))),
            }
        }
        match (dm.msg(7), &m.hist) {
            (None, None) => {}
            (Some(d), Some(h)) => {
                if d.u64(1).unwrap_or(0) != h.count {
                    return Err(w(&format!("histogram count decoded {:?}, family {}", d.u64(1), h.count)));
                }
                cmp_f64_field(&w("histogram sum"), d.double(2), h.sum)?;
                let db = d.msgs(3);
                if db.len() != h.buckets.len() {
                    return Err(w(&format!("{} buckets decoded, {} in family", db.len(), h.buckets.len())));
                }
                for (b, (ub, c)) in db.iter().zip(h.buckets.iter()) {
                    if b.u64(1).unwrap_or(0) != *c {
                        return Err(w(&format!("bucket count decoded {:?}, family {}", b.u64(1), c)));
                    }
                    cmp_f64_field(&w("bucket bound"), b.double(2), *ub)?;
                }
            }
            (d, h) => return Err(w(&format!("histogram present in stream: {}, in family: {}", d.is_some(), h.is_some()))),
        }
        match (dm.msg(4), &m.summ) {
            (None, None) => {}
            (Some(d), Some(s)) => {
                if d.u64(1).unwrap_or(0) != s.count {
                    return Err(w(&format!("summary count decoded {:?}, family {}", d.u64(1), s.count)));
                }
                cmp_f64_field(&w("summary sum"), d.double(2), s.sum)?;
                let dq = d.msgs(3);
                if dq.len() != s.quantiles.len() {
                    return Err(w(&format!("{} quantiles decoded, {} in family", dq.len(), s.quantiles.len())));
                }
                for (q, (qq, qv)) in dq.iter().zip(s.quantiles.iter()) {
                    cmp_f64_field(&w("quantile"), q.double(1), *qq)?;
                    cmp_f64_field(&w("quantile value"), q.double(2), *qv)?;
                }
            }
            (d, h) => return Err(w(&format!("summary present in stream: {}, in family: {}", d.is_some(), h.is_some()))),
        }
        if dm.i64(6).unwrap_or(0) != m.ts {
            return Err(w(&format!("timestamp decoded {:?}, family {}", dm.i64(6), m.ts)));
        }
    }
    Ok(())
}

/// C13: encode, decode with the independent wire decoder, compare with the families.
pub fn pb_roundtrip(cx: &mut Ctx, mfs: &[MF], pmfs: &[proto::MetricFamily], what: &str) {
    cx.part.count("pb_roundtrips", 1);
    let detail = |bytes: &[u8]| jobj! {"where" => what, "families" => families_json(mfs), "bytes_hex" => trunc(&bytes.iter().map(|b| format!("{:02x}", b)).collect::<String>(), 4000)};
    let mut bytes: Vec<u8> = Vec::new();
    if let Err(e) = ProtobufEncoder::new().encode(pmfs, &mut bytes) {
        cx.violation("pb-encode-fails-on-valid-families", what, format!("encode returned {:?}", e.to_string()), detail(&bytes));
        return;
    }
    cx.part.count("pb_bytes_decoded", bytes.len() as u64);
    sink_faults(cx, &ProtobufEncoder::new(), pmfs, &bytes, what, "pb", &|| detail(&bytes));
    let decoded = match pbwire::decode_delimited_families(&bytes) {
        Ok(d) => d,
        Err(e) => {
            cx.violation("pb-stream-does-not-decode", what, e, detail(&bytes));
            return;
        }
    };
    if decoded.len() != mfs.len() {
        cx.violation("pb-stream-family-count-differs", what, format!("{} messages in the stream, {} families", decoded.len(), mfs.len()), detail(&bytes));
        return;
    }
    for (i, (d, mf)) in decoded.iter().zip(mfs.iter()).enumerate() {
        if let Err(msg) = compare_family(d, mf) {
            cx.violation("pb-decoded-family-differs", what, format!("family {} ({}): {}", i, mf.name, msg), detail(&bytes));
            return;
        }
    }
}
