//! Plain mirror of the gathered data model, read through the public getters only,
//! plus construction of hand-built families (what a custom collector could supply).
use prometheus::proto;
use vcore::jobj;
use vcore::json::Json;

#[derive(Clone, Copy, Debug, PartialEq, Eq, Hash)]
pub enum MType {
    Counter,
    Gauge,
    Summary,
    Untyped,
    Histogram,
}

impl MType {
    pub fn text(self) -> &'static str {
        match self {
            MType::Counter => "counter",
            MType::Gauge => "gauge",
            MType::Summary => "summary",
            MType::Untyped => "untyped",
            MType::Histogram => "histogram",
        }
    }
    pub fn number(self) -> i64 {
        match self {
            MType::Counter => 0,
            MType::Gauge => 1,
            MType::Summary => 2,
            MType::Untyped => 3,
            MType::Histogram => 4,
        }
    }
    pub fn to_proto(self) -> proto::MetricType {
        match self {
            MType::Counter => proto::MetricType::COUNTER,
            MType::Gauge => proto::MetricType::GAUGE,
            MType::Summary => proto::MetricType::SUMMARY,
            MType::Untyped => proto::MetricType::UNTYPED,
            MType::Histogram => proto::MetricType::HISTOGRAM,
        }
    }
}

#[derive(Clone, Debug, PartialEq)]
pub struct Hist {
    pub count: u64,
    pub sum: f64,
    pub buckets: Vec<(f64, u64)>,
}

#[derive(Clone, Debug, PartialEq)]
pub struct Summ {
    pub count: u64,
    pub sum: f64,
    pub quantiles: Vec<(f64, f64)>,
}

#[derive(Clone, Debug, PartialEq, Default)]
pub struct M {
    pub labels: Vec<(String, String)>,
    pub counter: Option<f64>,
    pub gauge: Option<f64>,
    pub untyped: Option<f64>,
    pub hist: Option<Hist>,
    pub summ: Option<Summ>,
    pub ts: i64,
}

#[derive(Clone, Debug, PartialEq)]
pub struct MF {
    pub name: String,
    pub help: String,
    pub typ: MType,
    pub metrics: Vec<M>,
}

pub fn mtype_of(t: proto::MetricType) -> MType {
    match t {
        proto::MetricType::COUNTER => MType::Counter,
        proto::MetricType::GAUGE => MType::Gauge,
        proto::MetricType::SUMMARY => MType::Summary,
        proto::MetricType::UNTYPED => MType::Untyped,
        proto::MetricType::HISTOGRAM => MType::Histogram,
    }
}

pub fn extract(mf: &proto::MetricFamily) -> MF {
    MF {
        name: mf.name().to_string(),
        help: mf.help().to_string(),
        typ: mtype_of(mf.get_field_type()),
        metrics: mf.get_metric().iter().map(extract_metric).collect(),
    }
}

pub fn extract_metric(m: &proto::Metric) -> M {
    M {
        labels: m.get_label().iter().map(|l| (l.name().to_string(), l.value().to_string())).collect(),
        counter: m.counter.as_ref().map(|c| c.value()),
        gauge: m.gauge.as_ref().map(|c| c.value()),
        untyped: m.untyped.as_ref().map(|c| c.value()),
        hist: m.histogram.as_ref().map(|h| Hist {
            count: h.get_sample_count(),
            sum: h.get_sample_sum(),
            buckets: h.get_bucket().iter().map(|b| (b.upper_bound(), b.cumulative_count())).collect(),
        }),
        summ: m.summary.as_ref().map(|s| Summ {
            count: s.sample_count(),
            sum: s.sample_sum(),
            quantiles: s.get_quantile().iter().map(|q| (q.quantile(), q.value())).collect(),
        }),
        ts: m.timestamp_ms(),
    }
}

pub fn extract_all(mfs: &[proto::MetricFamily]) -> Vec<MF> {
    mfs.iter().map(extract).collect()
}

/// Build a proto family from the mirror (setters only).
pub fn build(mf: &MF) -> proto::MetricFamily {
    let mut out = proto::MetricFamily::default();
    out.set_name(mf.name.clone());
    out.set_help(mf.help.clone());
    out.set_field_type(mf.typ.to_proto());
    let mut ms = Vec::new();
    for m in &mf.metrics {
        let mut pm = proto::Metric::default();
        let labels: Vec<proto::LabelPair> = m
            .labels
            .iter()
            .map(|(n, v)| {
                let mut lp = proto::LabelPair::default();
                lp.set_name(n.clone());
                lp.set_value(v.clone());
                lp
            })
            .collect();
        pm.set_label(labels);
        if let Some(v) = m.counter {
            let mut c = proto::Counter::default();
            c.set_value(v);
            pm.set_counter(c);
        }
        if let Some(v) = m.gauge {
            let mut c = proto::Gauge::default();
            c.set_value(v);
            pm.set_gauge(c);
        }
        if let Some(v) = m.untyped {
            let mut c = proto::Untyped::default();
            c.set_value(v);
            pm.untyped = Some(c).into();
        }
        if let Some(h) = &m.hist {
            let mut ph = proto::Histogram::default();
            ph.set_sample_count(h.count);
            ph.set_sample_sum(h.sum);
            ph.set_bucket(
                h.buckets
                    .iter()
                    .map(|(ub, c)| {
                        let mut b = proto::Bucket::default();
                        b.set_upper_bound(*ub);
                        b.set_cumulative_count(*c);
                        b
                    })
                    .collect(),
            );
            pm.set_histogram(ph);
        }
        if let Some(s) = &m.summ {
            let mut ps = proto::Summary::default();
            ps.set_sample_count(s.count);
            ps.set_sample_sum(s.sum);
            ps.set_quantile(
                s.quantiles
                    .iter()
                    .map(|(q, v)| {
                        let mut pq = proto::Quantile::default();
                        pq.set_quantile(*q);
                        pq.set_value(*v);
                        pq
                    })
                    .collect(),
            );
            pm.set_summary(ps);
        }
        if m.ts != 0 {
            pm.set_timestamp_ms(m.ts);
        }
        ms.push(pm);
    }
    out.set_metric(ms);
    out
}

pub fn fbits(v: f64) -> String {
    format!("{:?}/{:#018x}", v, v.to_bits())
}

pub fn mf_json(mf: &MF) -> Json {
    let metrics: Vec<Json> = mf
        .metrics
        .iter()
        .map(|m| {
            let labels: Vec<Json> = m.labels.iter().map(|(n, v)| Json::Arr(vec![Json::Str(n.clone()), Json::Str(v.clone())])).collect();
            let mut o = vec![("labels".to_string(), Json::Arr(labels))];
            if let Some(v) = m.counter {
                o.push(("counter".into(), Json::Str(fbits(v))));
            }
            if let Some(v) = m.gauge {
                o.push(("gauge".into(), Json::Str(fbits(v))));
            }
            if let Some(v) = m.untyped {
                o.push(("untyped".into(), Json::Str(fbits(v))));
            }
            if let Some(h) = &m.hist {
                o.push((
                    "histogram".into(),
                    jobj! {"count" => h.count, "sum" => fbits(h.sum), "buckets" => Json::Arr(h.buckets.iter().map(|(b, c)| Json::Arr(vec![Json::Str(fbits(*b)), Json::UInt(*c)])).collect())},
                ));
            }
            if let Some(s) = &m.summ {
                o.push((
                    "summary".into(),
                    jobj! {"count" => s.count, "sum" => fbits(s.sum), "quantiles" => Json::Arr(s.quantiles.iter().map(|(q, v)| Json::Arr(vec![Json::Str(fbits(*q)), Json::Str(fbits(*v))])).collect())},
                ));
            }
            if m.ts != 0 {
                o.push(("timestamp_ms".into(), Json::Int(m.ts)));
            }
            Json::Obj(o)
        })
        .collect();
    jobj! {"name" => mf.name.clone(), "help" => mf.help.clone(), "type" => mf.typ.text(), "metrics" => Json::Arr(metrics)}
}

pub fn families_json(mfs: &[MF]) -> Json {
    Json::Arr(mfs.iter().map(mf_json).collect())
}

/// f64 equality as the properties mean it: finite values and infinities bit-exact, NaN by class.
pub fn same_f64(a: f64, b: f64) -> bool {
    if a.is_nan() || b.is_nan() {
        return a.is_nan() && b.is_nan();
    }
    a.to_bits() == b.to_bits()
}
