//! Declarative description of registered metrics: from one spec the real library
//! objects are built and, independently, the expected gather() result is computed
//! from the property statements (reference model).
use std::collections::{BTreeMap, HashMap};

use prometheus::core::Collector;
use prometheus::{
    Counter, CounterVec, Gauge, GaugeVec, Histogram, HistogramOpts, HistogramVec, IntCounter, IntCounterVec, IntGauge, IntGaugeVec, Opts, PullingGauge, Registry,
};
use vcore::pools::{self, VALID_LABEL_NAMES, VALID_METRIC_NAMES};
use vcore::prng::Rng;

use crate::fam::{Hist, MType, M, MF};

#[derive(Clone, Copy, Debug, PartialEq, Eq, Hash)]
pub enum Kind {
    Counter,
    IntCounter,
    Gauge,
    IntGauge,
    Histogram,
    PullingGauge,
    CounterVec,
    IntCounterVec,
    GaugeVec,
    IntGaugeVec,
    HistogramVec,
}

impl Kind {
    pub fn mtype(self) -> MType {
        match self {
            Kind::Counter | Kind::IntCounter | Kind::CounterVec | Kind::IntCounterVec => MType::Counter,
            Kind::Gauge | Kind::IntGauge | Kind::PullingGauge | Kind::GaugeVec | Kind::IntGaugeVec => MType::Gauge,
            Kind::Histogram | Kind::HistogramVec => MType::Histogram,
        }
    }
    pub fn is_vec(self) -> bool {
        matches!(self, Kind::CounterVec | Kind::IntCounterVec | Kind::GaugeVec | Kind::IntGaugeVec | Kind::HistogramVec)
    }
    pub fn is_int(self) -> bool {
        matches!(self, Kind::IntCounter | Kind::IntGauge | Kind::IntCounterVec | Kind::IntGaugeVec)
    }
    pub const ALL: [Kind; 11] = [
        Kind::Counter,
        Kind::IntCounter,
        Kind::Gauge,
        Kind::IntGauge,
        Kind::Histogram,
        Kind::PullingGauge,
        Kind::CounterVec,
        Kind::IntCounterVec,
        Kind::GaugeVec,
        Kind::IntGaugeVec,
        Kind::HistogramVec,
    ];
}

#[derive(Clone, Debug)]
pub struct ChildSpec {
    /// values of the variable labels, in declaration order (empty for scalar metrics)
    pub values: Vec<String>,
    /// counter: amounts added; gauge: values set (last wins); histogram: observations
    pub updates: Vec<f64>,
}

#[derive(Clone, Debug)]
pub struct MetricSpec {
    pub kind: Kind,
    pub name: String,
    pub help: String,
    pub const_labels: Vec<(String, String)>,
    pub var_labels: Vec<String>,
    pub buckets: Vec<f64>,
    pub children: Vec<ChildSpec>,
}

pub enum Built {
    Counter(Counter),
    IntCounter(IntCounter),
    Gauge(Gauge),
    IntGauge(IntGauge),
    Histogram(Histogram),
    PullingGauge(PullingGauge),
    CounterVec(CounterVec),
    IntCounterVec(IntCounterVec),
    GaugeVec(GaugeVec),
    IntGaugeVec(IntGaugeVec),
    HistogramVec(HistogramVec),
}

impl Built {
    pub fn boxed(&self) -> Box<dyn Collector> {
        match self {
            Built::Counter(c) => Box::new(c.clone()),
            Built::IntCounter(c) => Box::new(c.clone()),
            Built::Gauge(c) => Box::new(c.clone()),
            Built::IntGauge(c) => Box::new(c.clone()),
            Built::Histogram(c) => Box::new(c.clone()),
            Built::PullingGauge(c) => Box::new(c.clone()),
            Built::CounterVec(c) => Box::new(c.clone()),
            Built::IntCounterVec(c) => Box::new(c.clone()),
            Built::GaugeVec(c) => Box::new(c.clone()),
            Built::IntGaugeVec(c) => Box::new(c.clone()),
            Built::HistogramVec(c) => Box::new(c.clone()),
        }
    }
    pub fn collect(&self) -> Vec<prometheus::proto::MetricFamily> {
        self.boxed().collect()
    }
}

impl MetricSpec {
    pub fn opts(&self) -> Opts {
        let mut cl = HashMap::new();
        for (k, v) in &self.const_labels {
            cl.insert(k.clone(), v.clone());
        }
        Opts::new(self.name.clone(), self.help.clone()).const_labels(cl)
    }
    pub fn hopts(&self) -> HistogramOpts {
        HistogramOpts::from(self.opts()).buckets(self.buckets.clone())
    }

    /// Build the real object and apply the updates of the spec.
    pub fn build(&self) -> prometheus::Result<Built> {
        let names: Vec<&str> = self.var_labels.iter().map(|s| s.as_str()).collect();
        let first = |c: &ChildSpec| c.updates.clone();
        let scalar_updates: Vec<f64> = self.children.first().map(first).unwrap_or_default();
        Ok(match self.kind {
            Kind::Counter => {
                let c = Counter::with_opts(self.opts())?;
                for u in &scalar_updates {
                    c.inc_by(*u);
                }
                Built::Counter(c)
            }
            Kind::IntCounter => {
                let c = IntCounter::with_opts(self.opts())?;
                for u in &scalar_updates {
                    c.inc_by(*u as u64);
                }
                Built::IntCounter(c)
            }
            Kind::Gauge => {
                let c = Gauge::with_opts(self.opts())?;
                for u in &scalar_updates {
                    c.set(*u);
                }
                Built::Gauge(c)
            }
            Kind::IntGauge => {
                let c = IntGauge::with_opts(self.opts())?;
                for u in &scalar_updates {
                    c.set(*u as i64);
                }
                Built::IntGauge(c)
            }
            Kind::Histogram => {
                let c = Histogram::with_opts(self.hopts())?;
                for u in &scalar_updates {
                    c.observe(*u);
                }
                Built::Histogram(c)
            }
            Kind::PullingGauge => {
                let v = scalar_updates.last().copied().unwrap_or(0.0);
                Built::PullingGauge(PullingGauge::new(self.name.clone(), self.help.clone(), Box::new(move || v))?)
            }
            Kind::CounterVec => {
                let v = CounterVec::new(self.opts(), &names)?;
                for ch in &self.children {
                    let c = v.get_metric_with_label_values(&ch.values)?;
                    for u in &ch.updates {
                        c.inc_by(*u);
                    }
                }
                Built::CounterVec(v)
            }
            Kind::IntCounterVec => {
                let v = IntCounterVec::new(self.opts(), &names)?;
                for ch in &self.children {
                    let c = v.get_metric_with_label_values(&ch.values)?;
                    for u in &ch.updates {
                        c.inc_by(*u as u64);
                    }
                }
                Built::IntCounterVec(v)
            }
            Kind::GaugeVec => {
                let v = GaugeVec::new(self.opts(), &names)?;
                for ch in &self.children {
                    let c = v.get_metric_with_label_values(&ch.values)?;
                    for u in &ch.updates {
                        c.set(*u);
                    }
                }
                Built::GaugeVec(v)
            }
            Kind::IntGaugeVec => {
                let v = IntGaugeVec::new(self.opts(), &names)?;
                for ch in &self.children {
                    let c = v.get_metric_with_label_values(&ch.values)?;
                    for u in &ch.updates {
                        c.set(*u as i64);
                    }
                }
                Built::IntGaugeVec(v)
            }
            Kind::HistogramVec => {
                let v = HistogramVec::new(self.hopts(), &names)?;
                for ch in &self.children {
                    let c = v.get_metric_with_label_values(&ch.values)?;
                    for u in &ch.updates {
                        c.observe(*u);
                    }
                }
                Built::HistogramVec(v)
            }
        })
    }

    /// Reference value of one child, from the statement of what each metric kind does.
    fn model_child(&self, ch: &ChildSpec) -> M {
        let mut labels: Vec<(String, String)> = self.const_labels.clone();
        for (n, v) in self.var_labels.iter().zip(ch.values.iter()) {
            labels.push((n.clone(), v.clone()));
        }
        labels.sort_by(|a, b| a.0.cmp(&b.0));
        let mut m = M { labels, ..Default::default() };
        match self.kind.mtype() {
            MType::Counter => {
                let v = if self.kind.is_int() {
                    ch.updates.iter().fold(0u64, |a, u| a.wrapping_add(*u as u64)) as f64
                } else {
                    ch.updates.iter().fold(0.0f64, |a, u| a + *u)
                };
                m.counter = Some(v);
            }
            MType::Gauge => {
                let last = ch.updates.last().copied().unwrap_or(0.0);
                m.gauge = Some(if self.kind.is_int() { (last as i64) as f64 } else { last });
            }
            MType::Histogram => m.hist = Some(model_histogram(&self.buckets, &ch.updates)),
            _ => {}
        }
        m
    }

    pub fn model_samples(&self) -> Vec<M> {
        if self.kind.is_vec() {
            self.children.iter().map(|c| self.model_child(c)).collect()
        } else {
            let ch = self.children.first().cloned().unwrap_or(ChildSpec { values: vec![], updates: vec![] });
            vec![self.model_child(&ch)]
        }
    }
}

/// Effective bounds: default buckets for an empty list, trailing +Inf dropped.
pub fn effective_bounds(b: &[f64]) -> Vec<f64> {
    let mut v: Vec<f64> = if b.is_empty() { prometheus::DEFAULT_BUCKETS.to_vec() } else { b.to_vec() };
    if v.last().map(|x| *x == f64::INFINITY).unwrap_or(false) {
        v.pop();
    }
    v
}

pub fn model_histogram(buckets: &[f64], obs: &[f64]) -> Hist {
    let bounds = effective_bounds(buckets);
    let mut sum = 0.0f64;
    for o in obs {
        sum += *o;
    }
    Hist { count: obs.len() as u64, sum, buckets: bounds.iter().map(|b| (*b, obs.iter().filter(|o| **o <= *b).count() as u64)).collect() }
}

/// Expected gather() of `specs` registered in a registry with the given prefix / common labels.
pub fn model_gather(specs: &[&MetricSpec], prefix: Option<&str>, common: &[(String, String)]) -> Vec<MF> {
    let mut by_name: BTreeMap<String, MF> = BTreeMap::new();
    for s in specs {
        let samples = s.model_samples();
        if samples.is_empty() {
            continue;
        }
        let e = by_name.entry(s.name.clone()).or_insert_with(|| MF { name: s.name.clone(), help: s.help.clone(), typ: s.kind.mtype(), metrics: vec![] });
        e.metrics.extend(samples);
    }
    let mut common: Vec<(String, String)> = common.to_vec();
    common.sort_by(|a, b| a.0.cmp(&b.0));
    let mut out = Vec::new();
    for (_, mut mf) in by_name {
        mf.metrics.sort_by(|a, b| {
            let va: Vec<&String> = a.labels.iter().map(|l| &l.1).collect();
            let vb: Vec<&String> = b.labels.iter().map(|l| &l.1).collect();
            va.cmp(&vb)
        });
        if let Some(p) = prefix {
            mf.name = format!("{}_{}", p, mf.name);
        }
        for m in mf.metrics.iter_mut() {
            m.labels.extend(common.iter().cloned());
        }
        out.push(mf);
    }
    out
}

#[derive(Clone, Debug)]
pub struct RegistrySpec {
    pub prefix: Option<String>,
    pub common: Vec<(String, String)>,
}

impl RegistrySpec {
    pub fn build(&self) -> prometheus::Result<Registry> {
        let labels = if self.common.is_empty() { None } else { Some(self.common.iter().cloned().collect::<HashMap<String, String>>()) };
        Registry::new_custom(self.prefix.clone(), labels)
    }
}

/// Random world of valid, mutually compatible metrics (what C07 quantifies over).
pub struct WorldGen {
    pub adversarial_strings: bool,
    pub float_pool: Vec<f64>,
}

impl WorldGen {
    pub fn value(&self, rng: &mut Rng) -> String {
        if self.adversarial_strings {
            pools::any_string(rng)
        } else {
            rng.pick(&["", "a", "b", "ab", "c", "x y", "1", "10", "2"]).to_string()
        }
    }

    fn updates(&self, rng: &mut Rng, kind: Kind) -> Vec<f64> {
        let n = rng.usize_below(5);
        (0..n)
            .map(|_| match kind.mtype() {
                MType::Counter => {
                    if kind.is_int() {
                        rng.below(1 << 40) as f64
                    } else {
                        match rng.below(6) {
                            0 => 0.0,
                            1 => 0.1,
                            2 => f64::INFINITY,
                            3 => 1e300,
                            4 => 5e-324,
                            _ => rng.unit_f64() * 1000.0,
                        }
                    }
                }
                MType::Gauge => {
                    if kind.is_int() {
                        (rng.next_u64() >> rng.below(64)) as i64 as f64 * if rng.chance(1, 2) { -1.0 } else { 1.0 }
                    } else {
                        pools::any_f64(rng, &self.float_pool)
                    }
                }
                _ => pools::any_f64(rng, &self.float_pool),
            })
            .collect()
    }

    pub fn buckets(&self, rng: &mut Rng) -> Vec<f64> {
        match rng.below(5) {
            0 => vec![],
            1 => vec![0.5, 1.0, f64::INFINITY],
            2 => vec![-1.0, 0.0, 1e-9, 2.5, 1e300],
            3 => vec![1.0],
            _ => {
                let mut v: Vec<f64> = (0..1 + rng.usize_below(6)).map(|_| (rng.below(2000) as f64 - 1000.0) / 4.0).collect();
                v.sort_by(|a, b| a.partial_cmp(b).unwrap());
                v.dedup();
                v
            }
        }
    }

    /// `n` metric specs over a small name space; specs sharing a name share help, label names and type.
    pub fn world(&self, rng: &mut Rng, n: usize, reserved_labels: &[String]) -> Vec<MetricSpec> {
        let mut specs: Vec<MetricSpec> = Vec::new();
        // now and then: dozens of scalar collectors under one name (one family merged from many collectors)
        if rng.chance(1, 40) {
            let kind = *rng.pick(&[Kind::Gauge, Kind::IntGauge, Kind::Counter, Kind::Histogram]);
            let cl = rng.pick(&["shard", "part"]).to_string();
            if !reserved_labels.contains(&cl) {
                // (the draw is kept under the interpreter so that case contents stay aligned; the size is not)
                let crowd = 34 + rng.usize_below(40);
                for i in 0..(if cfg!(miri) { 3 } else { crowd }) {
                    specs.push(MetricSpec { kind, name: "crowd".to_string(), help: "many collectors, one family".to_string(), const_labels: vec![(cl.clone(), format!("{:03}", i))], var_labels: vec![], buckets: vec![1.0], children: self.children(rng, kind, 0) });
                }
            }
        }
        let names: Vec<&str> = VALID_METRIC_NAMES.iter().copied().collect();
        let label_pool: Vec<&str> = VALID_LABEL_NAMES.iter().copied().filter(|l| !reserved_labels.iter().any(|r| r == l) && *l != "le").collect();
        for _ in 0..n {
            let name = rng.pick(&names).to_string();
            let template = specs.iter().find(|s| s.name == name).cloned();
            let spec = match template {
                Some(t) if t.kind == Kind::PullingGauge || t.const_labels.is_empty() => continue, // cannot differ in const label values
                Some(t) => {
                    // same name: same help, same label names, same type; different const label values
                    let mut s = t.clone();
                    for (_, v) in s.const_labels.iter_mut() {
                        *v = self.value(rng);
                    }
                    if specs.iter().any(|o| o.name == s.name && o.const_labels == s.const_labels) {
                        continue;
                    }
                    s.children = self.children(rng, s.kind, s.var_labels.len());
                    s
                }
                None if rng.chance(1, 25) => {
                    // a wide vector: 9-11 variable labels, children agreeing on all but the last one or two values
                    let kind = *rng.pick(&[Kind::CounterVec, Kind::GaugeVec, Kind::HistogramVec, Kind::IntGaugeVec]);
                    let nvar = 9 + rng.usize_below(3);
                    let var_labels: Vec<String> = (0..nvar).map(|i| format!("w{:02}", i)).collect();
                    let base: Vec<String> = (0..nvar).map(|_| self.value(rng)).collect();
                    let mut children = Vec::new();
                    for i in 0..(3 + rng.usize_below(6)) {
                        let mut values = base.clone();
                        values[nvar - 1] = format!("{}{}", self.value(rng), 9 - i);
                        if rng.chance(1, 2) {
                            values[nvar - 2] = self.value(rng);
                        }
                        if !children.iter().any(|c: &ChildSpec| c.values == values) {
                            children.push(ChildSpec { values, updates: self.updates(rng, kind) });
                        }
                    }
                    MetricSpec { kind, name, help: "wide".to_string(), const_labels: vec![], var_labels, buckets: self.buckets(rng), children }
                }
                None => {
                    let kind = *rng.pick(&Kind::ALL);
                    let mut labels: Vec<&str> = label_pool.clone();
                    rng.shuffle(&mut labels);
                    let nconst = if kind == Kind::PullingGauge { 0 } else { rng.usize_below(3) };
                    let nvar = if kind.is_vec() { 1 + rng.usize_below(3) } else { 0 };
                    let const_labels: Vec<(String, String)> = labels[..nconst].iter().map(|l| (l.to_string(), self.value(rng))).collect();
                    let var_labels: Vec<String> = labels[nconst..nconst + nvar].iter().map(|l| l.to_string()).collect();
                    let help = loop {
                        let h = self.value(rng);
                        if !h.is_empty() {
                            break h;
                        }
                    };
                    MetricSpec { kind, name, help, const_labels, var_labels, buckets: self.buckets(rng), children: self.children(rng, kind, nvar) }
                }
            };
            specs.push(spec);
        }
        specs
    }

    fn children(&self, rng: &mut Rng, kind: Kind, nvar: usize) -> Vec<ChildSpec> {
        if !kind.is_vec() {
            return vec![ChildSpec { values: vec![], updates: self.updates(rng, kind) }];
        }
        let mut out: Vec<ChildSpec> = Vec::new();
        let many = if rng.chance(1, 60) { 150 + rng.usize_below(400) } else { 0 };
        let many = if cfg!(miri) { many.min(12) } else { many };
        for i in 0..many {
            let mut values: Vec<String> = (0..nvar).map(|_| self.value(rng)).collect();
            values[0] = format!("{}{}", values[0], i);
            if !out.iter().any(|c: &ChildSpec| c.values == values) {
                out.push(ChildSpec { values, updates: self.updates(rng, kind) });
            }
        }
        for _ in 0..rng.usize_below(5) {
            let values: Vec<String> = (0..nvar).map(|_| self.value(rng)).collect();
            if out.iter().any(|c| c.values == values) {
                continue;
            }
            out.push(ChildSpec { values, updates: self.updates(rng, kind) });
        }
        out
    }

    pub fn registry(&self, rng: &mut Rng) -> RegistrySpec {
        let prefix = match rng.below(3) {
            // also prefixes that are the leading segment of a registered name ("req" + "req_total", "x_y" + "x_y_z", ...)
            0 => Some(rng.pick(&["pre", "a_b", "ns:x", "_p", "req", "x_y", "x", "http", "m", "a"]).to_string()),
            _ => None,
        };
        let mut common = Vec::new();
        if rng.chance(1, 2) {
            let mut names = vec!["zone", "region", "host", "w", "x9", "_c"];
            rng.shuffle(&mut names);
            for n in names.iter().take(1 + rng.usize_below(4)) {
                common.push((n.to_string(), self.value(rng)));
            }
        }
        RegistrySpec { prefix, common }
    }
}
