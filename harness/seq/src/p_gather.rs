//! C07 — gather() is complete, canonically ordered and deterministic;
//! C14 — a gathered family never mixes metric types.
//! The same worlds feed the exposition rules of C04, C09, C13.
use vcore::jobj;
use vcore::json::Json;
use vcore::prng::Rng;

use crate::ctx::Ctx;
use crate::expo::check_exposition;
use crate::fam::{extract_all, families_json, fbits, same_f64, MF};
use crate::spec::{model_gather, Built, Kind, MetricSpec, WorldGen};

pub fn mf_equal(a: &[MF], b: &[MF]) -> Result<(), String> {
    if a.len() != b.len() {
        return Err(format!("{} families vs {}: {:?} vs {:?}", a.len(), b.len(), a.iter().map(|f| &f.name).collect::<Vec<_>>(), b.iter().map(|f| &f.name).collect::<Vec<_>>()));
    }
    for (x, y) in a.iter().zip(b.iter()) {
        if x.name != y.name {
            return Err(format!("family name {:?} vs {:?}", x.name, y.name));
        }
        if x.help != y.help {
            return Err(format!("{}: help {:?} vs {:?}", x.name, x.help, y.help));
        }
        if x.typ != y.typ {
            return Err(format!("{}: type {} vs {}", x.name, x.typ.text(), y.typ.text()));
        }
        if x.metrics.len() != y.metrics.len() {
            return Err(format!("{}: {} samples vs {}", x.name, x.metrics.len(), y.metrics.len()));
        }
        for (k, (m, n)) in x.metrics.iter().zip(y.metrics.iter()).enumerate() {
            if m.labels != n.labels {
                return Err(format!("{} sample {}: labels {:?} vs {:?}", x.name, k, m.labels, n.labels));
            }
            let of = |a: Option<f64>, b: Option<f64>| match (a, b) {
                (None, None) => true,
                (Some(a), Some(b)) => same_f64(a, b),
                _ => false,
            };
            if !of(m.counter, n.counter) || !of(m.gauge, n.gauge) || !of(m.untyped, n.untyped) {
                return Err(format!("{} sample {} {:?}: value counter {:?}/{:?} gauge {:?}/{:?}", x.name, k, m.labels, m.counter.map(fbits), n.counter.map(fbits), m.gauge.map(fbits), n.gauge.map(fbits)));
            }
            match (&m.hist, &n.hist) {
                (None, None) => {}
                (Some(h), Some(g)) => {
                    if h.count != g.count || !same_f64(h.sum, g.sum) || h.buckets.len() != g.buckets.len() || h.buckets.iter().zip(g.buckets.iter()).any(|(p, q)| !same_f64(p.0, q.0) || p.1 != q.1) {
                        return Err(format!("{} sample {} {:?}: histogram {:?} vs {:?}", x.name, k, m.labels, h, g));
                    }
                }
                _ => return Err(format!("{} sample {}: histogram present on one side only", x.name, k)),
            }
            if m.summ != n.summ || m.ts != n.ts {
                return Err(format!("{} sample {}: summary/timestamp differ", x.name, k));
            }
        }
    }
    Ok(())
}

/// Wrapper that logs the order in which gather() visits the collectors (the registry's hash-map iteration order).
struct Logged {
    inner: Box<dyn prometheus::core::Collector>,
    idx: usize,
    log: std::sync::Arc<std::sync::Mutex<Vec<usize>>>,
}

impl prometheus::core::Collector for Logged {
    fn desc(&self) -> Vec<&prometheus::core::Desc> {
        self.inner.desc()
    }
    fn collect(&self) -> Vec<prometheus::proto::MetricFamily> {
        self.log.lock().unwrap().push(self.idx);
        self.inner.collect()
    }
}

/// A hand-written collector made of several library metrics.
struct TwoInOne {
    parts: Vec<Box<dyn prometheus::core::Collector>>,
}

impl prometheus::core::Collector for TwoInOne {
    fn desc(&self) -> Vec<&prometheus::core::Desc> {
        self.parts.iter().flat_map(|p| p.desc()).collect()
    }
    fn collect(&self) -> Vec<prometheus::proto::MetricFamily> {
        self.parts.iter().flat_map(|p| p.collect()).collect()
    }
}

fn specs_json(specs: &[MetricSpec]) -> Json {
    Json::Arr(
        specs
            .iter()
            .map(|s| {
                jobj! {
                    "kind" => format!("{:?}", s.kind), "name" => s.name.clone(), "help" => s.help.clone(),
                    "const_labels" => Json::Arr(s.const_labels.iter().map(|(k, v)| Json::Arr(vec![Json::Str(k.clone()), Json::Str(v.clone())])).collect()),
                    "var_labels" => s.var_labels.clone(),
                    "buckets" => Json::Arr(s.buckets.iter().map(|b| Json::Str(fbits(*b))).collect()),
                    "children" => Json::Arr(s.children.iter().map(|c| jobj!{"values" => c.values.clone(), "updates" => Json::Arr(c.updates.iter().map(|u| Json::Str(fbits(*u))).collect())}).collect()),
                }
            })
            .collect(),
    )
}

/// One world, registered in several orders into fresh registries; every gather is compared with
/// the model and with the other gathers.
pub fn run_case(cx: &mut Ctx, mixed_kinds: bool) {
    let mut rng = Rng::derive(cx.seed, cx.case.wrapping_mul(2).wrapping_add(if mixed_kinds { 0xC14 } else { 0xC07 }));
    let gen = WorldGen { adversarial_strings: rng.chance(1, 2), float_pool: vcore::pools::float_pool() };
    let regspec = gen.registry(&mut rng);
    let reserved: Vec<String> = regspec.common.iter().map(|c| c.0.clone()).collect();
    let n = 1 + rng.usize_below(if cx.thorough { 12 } else { 7 });
    let mut specs = gen.world(&mut rng, n, &reserved);
    cx.mixed_kind_names.clear();
    if mixed_kinds {
        // C14's dedicated shape: collectors of a different kind under an existing name,
        // same help and label names, different const-label values
        let candidates: Vec<MetricSpec> = specs.iter().filter(|s| !s.const_labels.is_empty() && s.kind != Kind::PullingGauge).cloned().collect();
        for t in candidates.iter().take(2) {
            let mut s = t.clone();
            let others: Vec<Kind> = Kind::ALL.iter().copied().filter(|k| k.mtype() != t.kind.mtype() && k.is_vec() == t.kind.is_vec() && *k != Kind::PullingGauge).collect();
            s.kind = *rng.pick(&others);
            for (_, v) in s.const_labels.iter_mut() {
                *v = format!("{}#", gen.value(&mut rng));
            }
            if specs.iter().any(|o| o.name == s.name && o.const_labels == s.const_labels) {
                continue;
            }
            for c in s.children.iter_mut() {
                c.updates = c.updates.iter().map(|u| if u.is_finite() { u.abs().min(1e15) } else { 1.0 }).collect();
            }
            // sometimes the added collector is a vector without children: it contributes no sample,
            // so the family must simply be what the other collectors of that name make it
            if s.kind.is_vec() && rng.chance(1, 3) {
                s.children.clear();
            }
            specs.push(s);
        }
        // the listed known finding is about families that really receive samples of more than one kind
        let names: std::collections::BTreeSet<String> = specs.iter().map(|s| s.name.clone()).collect();
        for n in names {
            let kinds: std::collections::BTreeSet<u8> = specs.iter().filter(|s| s.name == n && !s.model_samples().is_empty()).map(|s| s.kind.mtype() as u8).collect();
            if kinds.len() > 1 {
                cx.mixed_kind_names.push(n);
            }
        }
    }
    if specs.is_empty() {
        return;
    }
    let built: Vec<Built> = match specs.iter().map(|s| s.build()).collect::<Result<Vec<_>, _>>() {
        Ok(b) => b,
        Err(e) => {
            cx.violation("valid-metric-refused", "spec-build", format!("a metric with valid names was refused: {}", e), specs_json(&specs));
            return;
        }
    };
    let refs: Vec<&MetricSpec> = specs.iter().collect();
    let model = model_gather(&refs, regspec.prefix.as_deref(), &regspec.common);
    if mixed_kinds {
        // a collector of another kind whose descriptor EQUALS a registered one (same name, same constant
        // label values, built from a separately constructed map) must be refused: admitting it is another
        // way of mixing types in one family
        if let Some(t) = specs.iter().find(|s| s.const_labels.len() >= 2 && s.kind != Kind::PullingGauge) {
            let mut twin = t.clone();
            let others: Vec<Kind> = Kind::ALL.iter().copied().filter(|k| k.mtype() != t.kind.mtype() && k.is_vec() == t.kind.is_vec() && *k != Kind::PullingGauge).collect();
            twin.kind = *rng.pick(&others);
            twin.children.iter_mut().for_each(|c| c.updates.clear());
            if let (Ok(reg), Ok(a), Ok(b)) = (regspec.build(), t.build(), twin.build()) {
                cx.part.count("equal_descriptor_other_kind_attempts", 1);
                // one collector exporting both kinds under one descriptor must be refused as well
                if let Ok(reg2) = regspec.build() {
                    let both = TwoInOne { parts: vec![a.boxed(), b.boxed()] };
                    if reg2.register(Box::new(both)).is_ok() {
                        cx.owned_violation(
                            "C14",
                            "collector-exporting-two-kinds-under-one-descriptor-admitted",
                            "register",
                            format!("one collector exporting {:?} {} and {:?} {} with the same constant labels was registered", t.kind, t.name, twin.kind, twin.name),
                            specs_json(&[t.clone(), twin.clone()]),
                        );
                    }
                }
                // between the two registrations: a failing unregister of a never registered bundle that contains
                // the first collector's descriptor must not free that descriptor
                let first_ok = reg.register(a.boxed()).is_ok();
                if let Some(o) = (0..specs.len()).find(|i| specs[*i].name != t.name) {
                    let _ = reg.unregister(Box::new(TwoInOne { parts: vec![a.boxed(), built[o].boxed()] }));
                }
                if first_ok && reg.register(b.boxed()).is_ok() {
                    cx.owned_violation(
                        "C14",
                        "collector-of-another-kind-with-an-equal-descriptor-admitted",
                        "register",
                        format!("{:?} {} and {:?} {} with the same constant labels {:?} are both registered", t.kind, t.name, twin.kind, twin.name, t.const_labels),
                        specs_json(&[t.clone(), twin.clone()]),
                    );
                }
            }
        }
    }
    let k = 3 + rng.usize_below(3);
    let mut visit_orders: std::collections::BTreeSet<Vec<usize>> = Default::default();
    let mut gathers: Vec<Vec<MF>> = Vec::new();
    let mut orders: Vec<Vec<usize>> = Vec::new();
    for round in 0..k {
        let mut order: Vec<usize> = (0..specs.len()).collect();
        rng.shuffle(&mut order);
        let visit_log = std::sync::Arc::new(std::sync::Mutex::new(Vec::new()));
        // every second round after the first registers the same metrics bundled: runs of one to three of them
        // become one hand-written collector (several families from one collect(), empty ones anywhere among them)
        let mut groups: Vec<Vec<usize>> = Vec::new();
        let bundled = round >= 1 && rng.chance(1, 2);
        let mut at = 0;
        while at < order.len() {
            let n = if bundled { 1 + rng.usize_below(3) } else { 1 };
            groups.push(order[at..(at + n).min(order.len())].to_vec());
            at += n;
        }
        if bundled {
            cx.part.count("registrations_as_bundled_collectors", 1);
        }
        let build_and_gather = || -> Result<Vec<prometheus::proto::MetricFamily>, String> {
            let reg = regspec.build().map_err(|e| format!("registry refused: {}", e))?;
            for g in &groups {
                let mut parts: Vec<Box<dyn prometheus::core::Collector>> = g.iter().map(|i| Box::new(Logged { inner: built[*i].boxed(), idx: *i, log: visit_log.clone() }) as Box<dyn prometheus::core::Collector>).collect();
                let c: Box<dyn prometheus::core::Collector> = if parts.len() == 1 { parts.pop().unwrap() } else { Box::new(TwoInOne { parts }) };
                reg.register(c).map_err(|e| format!("register {:?} refused: {}", g.iter().map(|i| specs[*i].name.clone()).collect::<Vec<_>>(), e))?;
            }
            Ok(reg.gather())
        };
        // alternate between this thread and a fresh thread (different per-thread hash keys)
        let res = if round % 2 == 1 { std::thread::scope(|s| s.spawn(build_and_gather).join().unwrap()) } else { build_and_gather() };
        let pmfs = match res {
            Ok(p) => p,
            Err(e) => {
                cx.owned_violation("C07", "compatible-collectors-refused", "register", e, jobj! {"specs" => specs_json(&specs), "registry" => format!("{:?}", regspec)});
                return;
            }
        };
        cx.part.evaluations += 1;
        check_exposition(cx, &pmfs, true, if mixed_kinds { "gather/mixed-kinds" } else { "gather/world" });
        gathers.push(extract_all(&pmfs));
        orders.push(order);
        visit_orders.insert(visit_log.lock().unwrap().clone());
    }
    cx.part.count("registries_gathered", k as u64);
    // how many *different* internal visiting orders the identical collector set was gathered in
    cx.part.count("distinct_internal_collect_orders", visit_orders.len() as u64);
    if specs.len() >= 3 && visit_orders.len() >= 2 {
        cx.part.count("worlds_gathered_in_more_than_one_internal_order", 1);
    }
    let detail = |g: &[MF]| jobj! {"specs" => specs_json(&specs), "registry" => format!("{:?}", regspec), "gathered" => families_json(g), "model" => families_json(&model)};
    let mixed_names = cx.mixed_kind_names.clone();
    // the model does not say which type a mixed-kind family gets; compare those only for determinism
    let strip = |g: &[MF]| -> Vec<MF> { g.iter().filter(|f| !mixed_names.iter().any(|n| f.name == *n || f.name.ends_with(&format!("_{}", n)))).cloned().collect() };
    for (i, g) in gathers.iter().enumerate() {
        if let Err(msg) = mf_equal(&strip(g), &strip(&model)) {
            cx.owned_violation("C07", "gather-differs-from-model", "world", format!("registration order {:?}: {}", orders[i], msg), detail(g));
            break;
        }
    }
    for i in 1..gathers.len() {
        if let Err(msg) = mf_equal(&gathers[0], &gathers[i]) {
            let mixed_diff = mf_equal(&strip(&gathers[0]), &strip(&gathers[i])).is_ok();
            if mixed_diff {
                cx.owned_violation("C14", "gather-merges-same-name-collectors-of-different-kinds", "registry::gather", format!("same collectors, orders {:?} and {:?}: {}", orders[0], orders[i], msg), detail(&gathers[i]));
            } else {
                cx.owned_violation("C07", "gather-depends-on-order-or-hash-seed", "world", format!("same collectors, orders {:?} and {:?}: {}", orders[0], orders[i], msg), detail(&gathers[i]));
            }
            break;
        }
    }
    cx.distinct(|h| {
        for s in &specs {
            h.str(&s.name);
            h.u64(s.kind as u64);
            h.u64(s.children.len() as u64);
            for c in &s.const_labels {
                h.str(&c.1);
            }
        }
        h.str(&format!("{:?}", regspec));
    });
    if cx.part.samples.len() < 2 {
        let j = jobj! {"specs" => specs_json(&specs), "registry" => format!("{:?}", regspec), "orders" => format!("{:?}", orders), "gathered" => families_json(&gathers[0])};
        cx.part.sample(2, j);
    }
    cx.mixed_kind_names.clear();
}
