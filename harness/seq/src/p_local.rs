//! C12 — local (unsync) metrics hand over exactly what they accumulated.
use std::collections::BTreeMap;

use prometheus::core::{Collector, Metric};
use prometheus::local::{LocalCounter, LocalCounterVec, LocalHistogram, LocalHistogramVec, LocalIntCounter, LocalIntCounterVec};
use prometheus::{Counter, CounterVec, Histogram, HistogramOpts, HistogramVec, IntCounter, IntCounterVec, Opts};
use vcore::jobj;
use vcore::json::Json;
use vcore::prng::Rng;

use crate::ctx::Ctx;

thread_local! {
    /// bucket bounds of the history being run (three by default, sometimes a few dozen)
    static BOUNDS: std::cell::RefCell<Vec<f64>> = std::cell::RefCell::new(vec![1.0, 4.0, 16.0]);
}

fn bounds() -> Vec<f64> {
    BOUNDS.with(|b| b.borrow().clone())
}

fn choose_bounds(rng: &mut Rng) {
    let b = match rng.below(8) {
        // more than 16 and more than 64 bounds, all below the largest observed values
        0 => (0..20).map(|i| 0.5 + i as f64 * 0.75).collect(),
        1 => (0..70).map(|i| 0.25 + i as f64 * 0.2).collect(),
        _ => vec![1.0, 4.0, 16.0],
    };
    BOUNDS.with(|x| *x.borrow_mut() = b);
}

#[derive(Clone, Debug, PartialEq)]
struct HRef {
    count: u64,
    sum: f64,
    cum: Vec<u64>,
}

impl Default for HRef {
    fn default() -> HRef {
        HRef { count: 0, sum: 0.0, cum: vec![0; BOUNDS.with(|b| b.borrow().len())] }
    }
}

impl HRef {
    fn observe(&mut self, v: f64) {
        self.count += 1;
        self.sum += v;
        BOUNDS.with(|bs| {
            for (i, b) in bs.borrow().iter().enumerate() {
                if v <= *b {
                    self.cum[i] += 1;
                }
            }
        });
    }
    fn absorb(&mut self, o: &HRef) {
        self.count += o.count;
        self.sum += o.sum;
        for i in 0..self.cum.len() {
            self.cum[i] += o.cum[i];
        }
    }
}

fn href_of(hp: &prometheus::proto::Histogram) -> HRef {
    HRef { count: hp.get_sample_count(), sum: hp.get_sample_sum(), cum: hp.get_bucket().iter().map(|b| b.cumulative_count()).collect() }
}

fn read_hist(h: &Histogram) -> HRef {
    let m = h.metric();
    href_of(m.get_histogram())
}

fn fail(cx: &mut Ctx, rule: &str, site: &str, msg: String, log: &[String]) {
    cx.violation(rule, site, msg, jobj! {"history" => log.to_vec()});
}

enum LC {
    F(Counter, Vec<Option<LocalCounter>>),
    I(IntCounter, Vec<Option<LocalIntCounter>>),
}

/// Float local counters with amounts far from the everyday integers: a batch however small (or however
/// large) is handed over exactly, through a scalar local counter and through a local vector child.
fn extreme_amounts(cx: &mut Ctx, rng: &mut Rng) {
    let amount = *rng.pick(&[1e-17, 5e-324, 1e-300, f64::EPSILON / 2.0, f64::EPSILON, 1e-9, 0.1, 1e300, 9007199254740993.0]);
    let twice = rng.chance(1, 2);
    let via_vec = rng.chance(1, 2);
    cx.part.evaluations += 1;
    cx.part.count("extreme_amount_batches", 1);
    let log = vec![format!("{} local float counter: inc_by({:e}){}, flush, flush", if via_vec { "vector child of a" } else { "scalar" }, amount, if twice { " twice" } else { "" })];
    let want = if twice { amount + amount } else { amount };
    let (shared, local_after, shared_after_second) = if via_vec {
        let v = CounterVec::new(Opts::new("c12_tiny_v", "h"), &["l"]).unwrap();
        let mut lv = v.local();
        lv.with_label_values(&["x"]).inc_by(amount);
        if twice {
            lv.with_label_values(&["x"]).inc_by(amount);
        }
        if amount > 1.0 {
            lv.flush();
        } else {
            lv.with_label_values(&["x"]).flush();
        }
        let s = v.with_label_values(&["x"]).get();
        let la = lv.with_label_values(&["x"]).get();
        lv.with_label_values(&["x"]).flush();
        lv.flush();
        (s, la, v.with_label_values(&["x"]).get())
    } else {
        let c = Counter::new("c12_tiny", "h").unwrap();
        let l = c.local();
        l.inc_by(amount);
        if twice {
            l.inc_by(amount);
        }
        l.flush();
        let s = c.get();
        let la = l.get();
        l.flush();
        (s, la, c.get())
    };
    if shared.to_bits() != want.to_bits() {
        fail(cx, "flush-did-not-hand-over-the-accumulated-amount", "LocalCounter/extreme-amount", format!("after the flush the shared counter reads {:e}, the batch was {:e}", shared, want), &log);
    } else if local_after != 0.0 {
        fail(cx, "local-counter-reads-wrong-amount", "LocalCounter/extreme-amount", format!("after the flush the local counter still reads {:e}", local_after), &log);
    } else if shared_after_second.to_bits() != want.to_bits() {
        fail(cx, "second-flush-added-something", "LocalCounter/extreme-amount", format!("a second flush changed the shared counter from {:e} to {:e}", want, shared_after_second), &log);
    }
}

fn counters(cx: &mut Ctx, rng: &mut Rng) {
    let float = rng.chance(1, 2);
    if float && rng.chance(1, 4) {
        extreme_amounts(cx, rng);
    }
    let site = if float { "LocalCounter" } else { "LocalIntCounter" };
    let mut w = if float { LC::F(Counter::new("c12_c", "h").unwrap(), vec![]) } else { LC::I(IntCounter::new("c12_c", "h").unwrap(), vec![]) };
    let mut shared: u64 = 0;
    let mut accs: Vec<Option<u64>> = Vec::new();
    let mut log: Vec<String> = Vec::new();
    let nops = 10 + rng.usize_below(if cx.thorough { 120 } else { 50 });
    for _ in 0..nops {
        let live: Vec<usize> = accs.iter().enumerate().filter(|(_, a)| a.is_some()).map(|(i, _)| i).collect();
        let op = rng.below(12);
        cx.part.evaluations += 1;
        if live.is_empty() || op == 0 {
            // new local handle from the shared counter
            match &mut w {
                LC::F(c, ls) => ls.push(Some(c.local())),
                LC::I(c, ls) => ls.push(Some(c.local())),
            }
            accs.push(Some(0));
            log.push(format!("L{} = counter.local()", accs.len() - 1));
        } else {
            let i = *rng.pick(&live);
            let amount = 1 + rng.below(9);
            match op {
                1 | 2 | 3 => {
                    match &w {
                        LC::F(_, ls) => ls[i].as_ref().unwrap().inc_by(amount as f64),
                        LC::I(_, ls) => ls[i].as_ref().unwrap().inc_by(amount),
                    }
                    *accs[i].as_mut().unwrap() += amount;
                    log.push(format!("L{}.inc_by({})", i, amount));
                }
                4 => {
                    match &w {
                        LC::F(_, ls) => ls[i].as_ref().unwrap().inc(),
                        LC::I(_, ls) => ls[i].as_ref().unwrap().inc(),
                    }
                    *accs[i].as_mut().unwrap() += 1;
                    log.push(format!("L{}.inc()", i));
                }
                5 | 6 => {
                    // through the inherent method or through the LocalMetric trait
                    let via_trait = rng.chance(1, 2);
                    match &w {
                        LC::F(_, ls) if via_trait => prometheus::local::LocalMetric::flush(ls[i].as_ref().unwrap()),
                        LC::I(_, ls) if via_trait => prometheus::local::LocalMetric::flush(ls[i].as_ref().unwrap()),
                        LC::F(_, ls) => ls[i].as_ref().unwrap().flush(),
                        LC::I(_, ls) => ls[i].as_ref().unwrap().flush(),
                    }
                    shared += accs[i].unwrap();
                    accs[i] = Some(0);
                    log.push(format!("L{}.flush()", i));
                    if rng.chance(1, 2) {
                        // a second flush adds nothing
                        match &w {
                            LC::F(_, ls) => ls[i].as_ref().unwrap().flush(),
                            LC::I(_, ls) => ls[i].as_ref().unwrap().flush(),
                        }
                        log.push(format!("L{}.flush() again", i));
                    }
                }
                7 => {
                    match &w {
                        LC::F(_, ls) => ls[i].as_ref().unwrap().reset(),
                        LC::I(_, ls) => ls[i].as_ref().unwrap().reset(),
                    }
                    accs[i] = Some(0);
                    log.push(format!("L{}.reset()", i));
                }
                8 => {
                    match &mut w {
                        LC::F(_, ls) => {
                            let c = ls[i].as_ref().unwrap().clone();
                            ls.push(Some(c));
                        }
                        LC::I(_, ls) => {
                            let c = ls[i].as_ref().unwrap().clone();
                            ls.push(Some(c));
                        }
                    }
                    accs.push(Some(0));
                    log.push(format!("L{} = L{}.clone()", accs.len() - 1, i));
                }
                9 => {
                    match &mut w {
                        LC::F(_, ls) => ls[i] = None,
                        LC::I(_, ls) => ls[i] = None,
                    }
                    accs[i] = None; // dropping a local counter discards what was not flushed
                    log.push(format!("drop(L{})", i));
                }
                10 => {
                    match &w {
                        LC::F(c, _) => c.inc_by(amount as f64),
                        LC::I(c, _) => c.inc_by(amount),
                    }
                    shared += amount;
                    log.push(format!("counter.inc_by({})", amount));
                }
                _ => {
                    match &w {
                        LC::F(c, _) => c.reset(),
                        LC::I(c, _) => c.reset(),
                    }
                    shared = 0;
                    log.push("counter.reset()".into());
                }
            }
        }
        // monitor: shared == direct updates + flushed batches; every local reads its accumulator
        let got_shared = match &w {
            LC::F(c, _) => c.get(),
            LC::I(c, _) => c.get() as f64,
        };
        if got_shared != shared as f64 {
            fail(cx, "shared-counter-differs-from-direct-plus-flushed", site, format!("shared counter reads {} but direct updates plus flushed batches total {}", got_shared, shared), &log);
            return;
        }
        for (i, a) in accs.iter().enumerate() {
            if let Some(a) = a {
                let got = match &w {
                    LC::F(_, ls) => ls[i].as_ref().unwrap().get(),
                    LC::I(_, ls) => ls[i].as_ref().unwrap().get() as f64,
                };
                if got != *a as f64 {
                    fail(cx, "local-counter-reads-wrong-amount", site, format!("L{} reads {} but accumulated {} since its last flush/reset", i, got, a), &log);
                    return;
                }
            }
        }
    }
    finish(cx, site, &log);
}

fn finish(cx: &mut Ctx, site: &str, log: &[String]) {
    cx.distinct(|h| {
        h.str(site);
        for l in log {
            h.str(l);
        }
    });
    cx.part.count("histories", 1);
    if cx.part.samples.len() < 3 {
        cx.part.sample(3, jobj! {"kind" => site, "history" => log.to_vec()});
    }
}

fn histograms(cx: &mut Ctx, rng: &mut Rng) {
    let site = "LocalHistogram";
    choose_bounds(rng);
    let h = Histogram::with_opts(HistogramOpts::new("c12_h", "h").buckets(bounds())).unwrap();
    let mut shared = HRef::default();
    let mut locals: Vec<Option<LocalHistogram>> = Vec::new();
    let mut accs: Vec<Option<HRef>> = Vec::new();
    let mut log: Vec<String> = Vec::new();
    let nops = 10 + rng.usize_below(if cx.thorough { 120 } else { 50 });
    for _ in 0..nops {
        let live: Vec<usize> = accs.iter().enumerate().filter(|(_, a)| a.is_some()).map(|(i, _)| i).collect();
        let op = rng.below(12);
        cx.part.evaluations += 1;
        let v = *rng.pick(&[0.0, 1.0, 2.0, 4.0, 5.0, 16.0, 17.0, 100.0]);
        if live.is_empty() || op == 0 {
            locals.push(Some(h.local()));
            accs.push(Some(HRef::default()));
            log.push(format!("L{} = histogram.local()", accs.len() - 1));
        } else {
            let i = *rng.pick(&live);
            match op {
                1..=4 => {
                    locals[i].as_ref().unwrap().observe(v);
                    accs[i].as_mut().unwrap().observe(v);
                    log.push(format!("L{}.observe({})", i, v));
                }
                5 | 6 => {
                    if rng.chance(1, 2) {
                        prometheus::local::LocalMetric::flush(locals[i].as_ref().unwrap());
                    } else {
                        locals[i].as_ref().unwrap().flush();
                    }
                    shared.absorb(accs[i].as_ref().unwrap());
                    accs[i] = Some(HRef::default());
                    log.push(format!("L{}.flush()", i));
                    if rng.chance(1, 2) {
                        locals[i].as_ref().unwrap().flush();
                        log.push(format!("L{}.flush() again", i));
                    }
                }
                7 => {
                    locals[i].as_ref().unwrap().clear();
                    accs[i] = Some(HRef::default());
                    log.push(format!("L{}.clear()", i));
                }
                8 => {
                    let c = locals[i].as_ref().unwrap().clone();
                    locals.push(Some(c));
                    accs.push(Some(HRef::default())); // a clone starts empty
                    log.push(format!("L{} = L{}.clone()", accs.len() - 1, i));
                }
                9 => {
                    locals[i] = None; // dropping a local histogram flushes it
                    shared.absorb(accs[i].as_ref().unwrap());
                    accs[i] = None;
                    log.push(format!("drop(L{})", i));
                }
                _ => {
                    h.observe(v);
                    shared.observe(v);
                    log.push(format!("histogram.observe({})", v));
                }
            }
        }
        let got = read_hist(&h);
        if got != shared {
            fail(cx, "shared-histogram-differs-from-direct-plus-flushed", site, format!("shared histogram is {:?} but direct observations plus flushed batches give {:?}", got, shared), &log);
            return;
        }
        for (i, a) in accs.iter().enumerate() {
            if let Some(a) = a {
                let l = locals[i].as_ref().unwrap();
                if l.get_sample_count() != a.count || l.get_sample_sum() != a.sum {
                    fail(cx, "local-histogram-reads-wrong-amount", site, format!("L{} reads count {} sum {} but accumulated count {} sum {}", i, l.get_sample_count(), l.get_sample_sum(), a.count, a.sum), &log);
                    return;
                }
            }
        }
    }
    finish(cx, site, &log);
}

const TUPLES: &[&str] = &["a", "b", "ab"];

/// Label values for one history: usually three, sometimes a dozen, sometimes well over a hundred
/// (local caches and child maps then grow past their small sizes).
fn tuple_pool(rng: &mut Rng) -> Vec<&'static str> {
    static MANY: std::sync::OnceLock<Vec<String>> = std::sync::OnceLock::new();
    let many = MANY.get_or_init(|| (0..160).map(|i| format!("t{}", i)).collect());
    match rng.below(12) {
        0 | 1 => many[..12].iter().map(|s| s.as_str()).collect(),
        // (a dozen under the interpreter: hundreds of operations over 160 children are an hour of Miri time)
        2 if !cfg!(miri) => many.iter().map(|s| s.as_str()).collect(),
        2 => many[..12].iter().map(|s| s.as_str()).collect(),
        _ => TUPLES.to_vec(),
    }
}

enum CV {
    F(CounterVec, Vec<Option<LocalCounterVec>>),
    I(IntCounterVec, Vec<Option<LocalIntCounterVec>>),
}

/// Counter vectors: children have identities; a removed child is orphaned (still fed by handles
/// that cached it) and a later request creates a fresh one.
fn counter_vecs(cx: &mut Ctx, rng: &mut Rng) {
    let float = rng.chance(1, 2);
    let site = if float { "LocalCounterVec" } else { "LocalIntCounterVec" };
    let mut w = if float { CV::F(CounterVec::new(Opts::new("c12_cv", "h"), &["l"]).unwrap(), vec![]) } else { CV::I(IntCounterVec::new(Opts::new("c12_cv", "h"), &["l"]).unwrap(), vec![]) };
    // model
    let mut next_child = 0usize;
    let mut exported: BTreeMap<&str, usize> = BTreeMap::new(); // tuple -> child id
    let mut child_val: Vec<u64> = Vec::new();
    let mut caches: Vec<Option<BTreeMap<&str, (usize, u64)>>> = Vec::new(); // per local vec: tuple -> (child id, acc)
    let mut log: Vec<String> = Vec::new();
    let pool = tuple_pool(rng);
    let nops = if pool.len() > 100 { 400 + rng.usize_below(300) } else { 10 + rng.usize_below(if cx.thorough { 100 } else { 45 }) };
    for _ in 0..nops {
        let live: Vec<usize> = caches.iter().enumerate().filter(|(_, a)| a.is_some()).map(|(i, _)| i).collect();
        // with many label values most operations are updates, so that the caches actually fill up
        let op = if pool.len() > 100 && !live.is_empty() && rng.chance(5, 6) { 1 + rng.below(4) } else { rng.below(12) };
        let t = *rng.pick(&pool);
        let amount = 1 + rng.below(9);
        cx.part.evaluations += 1;
        if live.is_empty() || op == 0 {
            match &mut w {
                CV::F(v, ls) => ls.push(Some(v.local())),
                CV::I(v, ls) => ls.push(Some(v.local())),
            }
            caches.push(Some(BTreeMap::new()));
            log.push(format!("V{} = vec.local()", caches.len() - 1));
        } else {
            let i = *rng.pick(&live);
            match op {
                1..=4 => {
                    match &mut w {
                        CV::F(_, ls) => ls[i].as_mut().unwrap().with_label_values(&[t]).inc_by(amount as f64),
                        CV::I(_, ls) => ls[i].as_mut().unwrap().with_label_values(&[t]).inc_by(amount),
                    }
                    let cache = caches[i].as_mut().unwrap();
                    if !cache.contains_key(t) {
                        let child = *exported.entry(t).or_insert_with(|| {
                            child_val.push(0);
                            next_child += 1;
                            next_child - 1
                        });
                        cache.insert(t, (child, 0));
                    }
                    cache.get_mut(t).unwrap().1 += amount;
                    log.push(format!("V{}.with_label_values([{:?}]).inc_by({})", i, t, amount));
                }
                5 | 6 => {
                    let via_trait = rng.chance(1, 2);
                    match &w {
                        CV::F(_, ls) if via_trait => prometheus::local::LocalMetric::flush(ls[i].as_ref().unwrap()),
                        CV::I(_, ls) if via_trait => prometheus::local::LocalMetric::flush(ls[i].as_ref().unwrap()),
                        CV::F(_, ls) => ls[i].as_ref().unwrap().flush(),
                        CV::I(_, ls) => ls[i].as_ref().unwrap().flush(),
                    }
                    for (_, (child, acc)) in caches[i].as_mut().unwrap().iter_mut() {
                        child_val[*child] += *acc;
                        *acc = 0;
                    }
                    log.push(format!("V{}.flush()", i));
                }
                7 | 8 => {
                    let r = match &mut w {
                        CV::F(_, ls) => ls[i].as_mut().unwrap().remove_label_values(&[t]).is_ok(),
                        CV::I(_, ls) => ls[i].as_mut().unwrap().remove_label_values(&[t]).is_ok(),
                    };
                    // removal discards the unflushed local amount and un-exports the shared child
                    caches[i].as_mut().unwrap().remove(t);
                    let was = exported.remove(t).is_some();
                    log.push(format!("V{}.remove_label_values([{:?}]) -> {}", i, t, if r { "Ok" } else { "Err" }));
                    if r != was {
                        fail(cx, "local-vec-remove-outcome-wrong", site, format!("remove_label_values({:?}) returned {} but the shared child {}", t, if r { "Ok" } else { "Err" }, if was { "existed" } else { "did not exist" }), &log);
                        return;
                    }
                }
                9 => {
                    match &mut w {
                        CV::F(_, ls) => {
                            let c = ls[i].as_ref().unwrap().clone();
                            ls.push(Some(c));
                        }
                        CV::I(_, ls) => {
                            let c = ls[i].as_ref().unwrap().clone();
                            ls.push(Some(c));
                        }
                    }
                    caches.push(Some(BTreeMap::new()));
                    log.push(format!("V{} = V{}.clone()", caches.len() - 1, i));
                }
                10 => {
                    match &mut w {
                        CV::F(_, ls) => ls[i] = None,
                        CV::I(_, ls) => ls[i] = None,
                    }
                    caches[i] = None;
                    log.push(format!("drop(V{})", i));
                }
                _ => {
                    match &w {
                        CV::F(v, _) => v.with_label_values(&[t]).inc_by(amount as f64),
                        CV::I(v, _) => v.with_label_values(&[t]).inc_by(amount),
                    }
                    let child = *exported.entry(t).or_insert_with(|| {
                        child_val.push(0);
                        next_child += 1;
                        next_child - 1
                    });
                    child_val[child] += amount;
                    log.push(format!("vec.with_label_values([{:?}]).inc_by({})", t, amount));
                }
            }
        }
        // shared vector == model of exported children
        let mfs = match &w {
            CV::F(v, _) => v.collect(),
            CV::I(v, _) => v.collect(),
        };
        let mut got: BTreeMap<String, f64> = BTreeMap::new();
        for m in mfs[0].get_metric() {
            got.insert(m.get_label()[0].value().to_string(), m.get_counter().value());
        }
        let want: BTreeMap<String, f64> = exported.iter().map(|(t, c)| (t.to_string(), child_val[*c] as f64)).collect();
        if got != want {
            fail(cx, "shared-vector-differs-from-direct-plus-flushed", site, format!("the shared vector exports {:?}; direct updates plus flushed batches give {:?}", got, want), &log);
            return;
        }
    }
    finish(cx, site, &log);
}

fn histogram_vecs(cx: &mut Ctx, rng: &mut Rng) {
    let site = "LocalHistogramVec";
    choose_bounds(rng);
    let vec = HistogramVec::new(HistogramOpts::new("c12_hv", "h").buckets(bounds()), &["l"]).unwrap();
    let mut locals: Vec<Option<LocalHistogramVec>> = Vec::new();
    let mut next_child = 0usize;
    let mut exported: BTreeMap<&str, usize> = BTreeMap::new();
    let mut child_val: Vec<HRef> = Vec::new();
    let mut caches: Vec<Option<BTreeMap<&str, (usize, HRef)>>> = Vec::new();
    let mut log: Vec<String> = Vec::new();
    let pool = tuple_pool(rng);
    let nops = if pool.len() > 100 { 400 + rng.usize_below(300) } else { 10 + rng.usize_below(if cx.thorough { 100 } else { 45 }) };
    for _ in 0..nops {
        let live: Vec<usize> = caches.iter().enumerate().filter(|(_, a)| a.is_some()).map(|(i, _)| i).collect();
        let op = if pool.len() > 100 && !live.is_empty() && rng.chance(5, 6) { 1 + rng.below(4) } else { rng.below(12) };
        let t = *rng.pick(&pool);
        let v = *rng.pick(&[0.0, 1.0, 3.0, 4.0, 9.0, 16.0, 50.0]);
        cx.part.evaluations += 1;
        if live.is_empty() || op == 0 {
            locals.push(Some(vec.local()));
            caches.push(Some(BTreeMap::new()));
            log.push(format!("V{} = vec.local()", caches.len() - 1));
        } else {
            let i = *rng.pick(&live);
            match op {
                1..=4 => {
                    locals[i].as_mut().unwrap().with_label_values(&[t]).observe(v);
                    let cache = caches[i].as_mut().unwrap();
                    if !cache.contains_key(t) {
                        let child = *exported.entry(t).or_insert_with(|| {
                            child_val.push(HRef::default());
                            next_child += 1;
                            next_child - 1
                        });
                        cache.insert(t, (child, HRef::default()));
                    }
                    cache.get_mut(t).unwrap().1.observe(v);
                    log.push(format!("V{}.with_label_values([{:?}]).observe({})", i, t, v));
                }
                5 | 6 => {
                    if rng.chance(1, 2) {
                        prometheus::local::LocalMetric::flush(locals[i].as_ref().unwrap());
                    } else {
                        locals[i].as_ref().unwrap().flush();
                    }
                    for (_, (child, acc)) in caches[i].as_mut().unwrap().iter_mut() {
                        child_val[*child].absorb(acc);
                        *acc = HRef::default();
                    }
                    log.push(format!("V{}.flush()", i));
                }
                7 | 8 => {
                    let r = locals[i].as_mut().unwrap().remove_label_values(&[t]).is_ok();
                    // the cached local histogram is dropped (which flushes it into its child), then the child is un-exported
                    if let Some((child, acc)) = caches[i].as_mut().unwrap().remove(t) {
                        child_val[child].absorb(&acc);
                    }
                    let was = exported.remove(t).is_some();
                    log.push(format!("V{}.remove_label_values([{:?}]) -> {}", i, t, if r { "Ok" } else { "Err" }));
                    if r != was {
                        fail(cx, "local-vec-remove-outcome-wrong", site, format!("remove_label_values({:?}) returned {} but the shared child {}", t, if r { "Ok" } else { "Err" }, if was { "existed" } else { "did not exist" }), &log);
                        return;
                    }
                }
                9 => {
                    let c = locals[i].as_ref().unwrap().clone();
                    locals.push(Some(c));
                    caches.push(Some(BTreeMap::new()));
                    log.push(format!("V{} = V{}.clone()", caches.len() - 1, i));
                }
                10 => {
                    locals[i] = None; // dropping a local histogram vector flushes it
                    for (_, (child, acc)) in caches[i].take().unwrap().into_iter() {
                        child_val[child].absorb(&acc);
                    }
                    log.push(format!("drop(V{})", i));
                }
                _ => {
                    vec.with_label_values(&[t]).observe(v);
                    let child = *exported.entry(t).or_insert_with(|| {
                        child_val.push(HRef::default());
                        next_child += 1;
                        next_child - 1
                    });
                    child_val[child].observe(v);
                    log.push(format!("vec.with_label_values([{:?}]).observe({})", t, v));
                }
            }
        }
        let mfs = vec.collect();
        let mut got: BTreeMap<String, HRef> = BTreeMap::new();
        for m in mfs[0].get_metric() {
            got.insert(m.get_label()[0].value().to_string(), href_of(m.get_histogram()));
        }
        let want: BTreeMap<String, HRef> = exported.iter().map(|(t, c)| (t.to_string(), child_val[*c].clone())).collect();
        if got != want {
            fail(cx, "shared-vector-differs-from-direct-plus-flushed", site, format!("the shared vector exports {:?}; direct observations plus flushed batches give {:?}", got, want), &log);
            return;
        }
    }
    finish(cx, site, &log);
}

pub fn run_case(cx: &mut Ctx) {
    let mut rng = Rng::derive(cx.seed, cx.case.wrapping_mul(2).wrapping_add(0xC12));
    match cx.case % 4 {
        0 => counters(cx, &mut rng),
        1 => histograms(cx, &mut rng),
        2 => counter_vecs(cx, &mut rng),
        _ => histogram_vecs(cx, &mut rng),
    }
    let _ = Json::Null;
}
