//! C20 — registration macros are faithful shorthands for the explicit calls.
//! Every arm of every macro (with and without trailing comma) is a fixed call site,
//! executed with runtime-generated arguments and compared with the explicitly
//! constructed twin.
use std::collections::HashMap;

use prometheus::core::{Collector, Desc};
use prometheus::proto::MetricFamily;
use prometheus::{
    histogram_opts, labels, opts, register_counter, register_counter_vec, register_counter_vec_with_registry, register_counter_with_registry, register_gauge, register_gauge_vec, register_gauge_vec_with_registry,
    register_gauge_with_registry, register_histogram, register_histogram_vec, register_histogram_vec_with_registry, register_histogram_with_registry, register_int_counter, register_int_counter_vec,
    register_int_counter_vec_with_registry, register_int_counter_with_registry, register_int_gauge, register_int_gauge_vec, register_int_gauge_vec_with_registry, register_int_gauge_with_registry,
};
use prometheus::{Counter, CounterVec, Gauge, GaugeVec, Histogram, HistogramOpts, HistogramVec, IntCounter, IntCounterVec, IntGauge, IntGaugeVec, Opts, Registry};
use vcore::jobj;
use vcore::pools;
use vcore::prng::Rng;

use crate::ctx::{catch, Ctx};
use crate::fam::{extract_all, MF};

/// What the checks need from a returned handle.
trait Handle: Collector + Clone + 'static {
    fn bump(&self, x: u64);
}
impl Handle for Counter {
    fn bump(&self, x: u64) {
        self.inc_by(x as f64)
    }
}
impl Handle for IntCounter {
    fn bump(&self, x: u64) {
        self.inc_by(x)
    }
}
impl Handle for Gauge {
    fn bump(&self, x: u64) {
        self.add(x as f64)
    }
}
impl Handle for IntGauge {
    fn bump(&self, x: u64) {
        self.add(x as i64)
    }
}
impl Handle for Histogram {
    fn bump(&self, x: u64) {
        self.observe(x as f64)
    }
}
fn vals(n: usize) -> Vec<&'static str> {
    vec!["lv"; n]
}
impl Handle for CounterVec {
    fn bump(&self, x: u64) {
        let n = self.desc()[0].variable_labels.len();
        self.with_label_values(&vals(n)).inc_by(x as f64)
    }
}
impl Handle for IntCounterVec {
    fn bump(&self, x: u64) {
        let n = self.desc()[0].variable_labels.len();
        self.with_label_values(&vals(n)).inc_by(x)
    }
}
impl Handle for GaugeVec {
    fn bump(&self, x: u64) {
        let n = self.desc()[0].variable_labels.len();
        self.with_label_values(&vals(n)).add(x as f64)
    }
}
impl Handle for IntGaugeVec {
    fn bump(&self, x: u64) {
        let n = self.desc()[0].variable_labels.len();
        self.with_label_values(&vals(n)).add(x as i64)
    }
}
impl Handle for HistogramVec {
    fn bump(&self, x: u64) {
        let n = self.desc()[0].variable_labels.len();
        self.with_label_values(&vals(n)).observe(x as f64)
    }
}

fn desc_fields(d: &Desc) -> String {
    format!(
        "fq_name={:?} help={:?} const={:?} var={:?} id={:016x} dim={:016x}",
        d.fq_name,
        d.help,
        d.const_label_pairs.iter().map(|l| (l.name().to_string(), l.value().to_string())).collect::<Vec<_>>(),
        d.variable_labels,
        d.id,
        d.dim_hash
    )
}

/// value carried by the sample(s) of `name` in a gather (sum for histograms), None when absent
fn value_in(mfs: &[MF], name: &str) -> Option<f64> {
    let mf = mfs.iter().find(|f| f.name == name)?;
    let m = mf.metrics.first()?;
    m.counter.or(m.gauge).or(m.hist.as_ref().map(|h| h.sum))
}

fn bounds_of(mfs: &[MetricFamily]) -> Option<Vec<u64>> {
    let m = mfs.first()?.get_metric().first()?;
    if m.histogram.is_some() {
        Some(m.get_histogram().get_bucket().iter().map(|b| b.upper_bound().to_bits()).collect())
    } else {
        None
    }
}

struct Target<'a> {
    /// None: the default registry
    custom: Option<&'a Registry>,
    prefix: Option<&'a str>,
}

fn check_arm<H: Handle>(cx: &mut Ctx, arm: &str, first: Result<prometheus::Result<H>, String>, second: Result<prometheus::Result<H>, String>, twin: prometheus::Result<H>, target: &Target, other: &Registry, amount: u64) -> bool {
    cx.part.evaluations += 1;
    cx.part.count("macro_invocations", 2);
    let tag = cx.case_tag;
    cx.distinct(|h| {
        h.str(arm);
        h.u64(target.custom.is_some() as u64);
        h.u64(target.prefix.is_some() as u64);
        h.u64(tag);
    });
    let detail = |extra: String| jobj! {"arm" => arm, "note" => extra};
    let twin = match twin {
        Ok(t) => t,
        Err(e) => {
            // the explicit constructor refuses these arguments: the macro (which unwraps the constructor's
            // result) must not quietly produce a metric either
            cx.part.count("twin_refused", 1);
            if let Ok(Ok(_)) = first {
                cx.violation("macro-accepts-arguments-the-explicit-constructor-refuses", arm, format!("explicit constructor: {}", e), detail(String::new()));
            }
            return false;
        }
    };
    let h = match first {
        Err(p) => {
            cx.violation("macro-panicked-on-valid-arguments", arm, p, detail(String::new()));
            return false;
        }
        Ok(Err(e)) => {
            cx.violation("macro-refused-admissible-metric", arm, e.to_string(), detail(String::new()));
            return false;
        }
        Ok(Ok(h)) => h,
    };
    // same metric as the explicit constructor call
    let (dm, dt) = (h.desc(), twin.desc());
    if dm.len() != dt.len() || dm.iter().zip(dt.iter()).any(|(a, b)| desc_fields(a) != desc_fields(b)) {
        cx.violation(
            "macro-metric-differs-from-explicit-constructor",
            arm,
            format!("macro: {:?}; explicit: {:?}", dm.iter().map(|d| desc_fields(d)).collect::<Vec<_>>(), dt.iter().map(|d| desc_fields(d)).collect::<Vec<_>>()),
            detail(String::new()),
        );
        return false;
    }
    h.bump(amount);
    twin.bump(amount);
    if bounds_of(&h.collect()) != bounds_of(&twin.collect()) {
        cx.violation("macro-buckets-differ-from-explicit-constructor", arm, format!("macro: {:?}; explicit: {:?}", bounds_of(&h.collect()), bounds_of(&twin.collect())), detail(String::new()));
        return false;
    }
    // registered in the registry named in the call (or the default one), and the handle is the registered metric itself
    let fq = dm[0].fq_name.clone();
    let (in_target, in_other) = match target.custom {
        Some(r) => (extract_all(&r.gather()), extract_all(&prometheus::gather())),
        None => (extract_all(&if amount % 2 == 0 { prometheus::gather() } else { prometheus::default_registry().gather() }), extract_all(&other.gather())),
    };
    let exposed = match target.prefix {
        Some(p) => format!("{}_{}", p, fq),
        None => fq.clone(),
    };
    match value_in(&in_target, &exposed) {
        Some(v) if v == amount as f64 => {}
        got => {
            cx.violation(
                "macro-handle-is-not-the-registered-metric",
                arm,
                format!("after adding {} through the returned handle the targeted registry shows {:?} for {}", amount, got, exposed),
                detail(String::new()),
            );
            return false;
        }
    }
    if in_other.iter().any(|f| f.name == fq || f.name == exposed) {
        cx.violation("macro-registered-in-the-wrong-registry", arm, format!("{} also appears in the registry that was not named", fq), detail(String::new()));
        return false;
    }
    // a second identical invocation is refused and evaluates to Err
    match second {
        Ok(Err(_)) => {}
        Ok(Ok(_)) => cx.violation("macro-second-registration-not-refused", arm, format!("registering {} twice succeeded", fq), detail(String::new())),
        Err(p) => cx.violation("macro-panicked-instead-of-err", arm, p, detail(String::new())),
    }
    // unregister it again - through the free function or through the registry handle - and report whether
    // that went through: the caller then invokes the macro a third time, which must succeed again
    let un = match target.custom {
        Some(r) => r.unregister(Box::new(h.clone())),
        None if amount % 2 == 0 => prometheus::unregister(Box::new(h.clone())),
        None => prometheus::default_registry().unregister(Box::new(h.clone())),
    };
    un.is_ok()
}

/// Third invocation, after the metric of the first one was unregistered: the explicit calls would register
/// a fresh metric, so the macro must evaluate to Ok again (and the new metric is unregistered for good).
fn check_again<H: Handle>(cx: &mut Ctx, arm: &str, third: Result<prometheus::Result<H>, String>, target: &Target) {
    cx.part.count("macro_invocations", 1);
    cx.part.count("macro_invocations_after_unregistration", 1);
    match third {
        Err(p) => cx.violation("macro-panicked-on-valid-arguments", arm, p, jobj! {"arm" => arm, "note" => "third invocation, after the first metric was unregistered"}),
        Ok(Err(e)) => cx.violation("macro-refused-admissible-metric", arm, format!("after the first metric was unregistered the same invocation evaluates to Err: {}", e), jobj! {"arm" => arm, "note" => "third invocation, after the first metric was unregistered"}),
        Ok(Ok(h)) => {
            let _ = match target.custom {
                Some(r) => r.unregister(Box::new(h.clone())),
                None => prometheus::unregister(Box::new(h.clone())),
            };
        }
    }
}

fn gen_labels(rng: &mut Rng, avoid: &[&str]) -> HashMap<String, String> {
    let mut m = HashMap::new();
    let mut names: Vec<&str> = pools::VALID_LABEL_NAMES.iter().copied().filter(|n| !avoid.contains(n)).collect();
    rng.shuffle(&mut names);
    for n in names.iter().take(rng.usize_below(3)) {
        m.insert(n.to_string(), pools::any_string(rng));
    }
    m
}

pub fn run_case(cx: &mut Ctx) {
    let mut rng = Rng::derive(cx.seed, cx.case.wrapping_mul(2).wrapping_add(0xC20));
    let uniq = format!("c20_s{}_c{}", cx.seed, cx.case);
    let help: String = loop {
        let h = pools::any_string(&mut rng);
        if !h.is_empty() {
            break h;
        }
    };
    let help = help.as_str();
    // custom registries: plain, with prefix, with prefix and common labels
    let plain = Registry::new();
    let mut common = HashMap::new();
    common.insert("zone".to_string(), pools::any_string(&mut rng));
    let prefixed = Registry::new_custom(Some("pfx".into()), if rng.chance(1, 2) { Some(common) } else { None }).unwrap();
    let (reg, prefix): (&Registry, Option<&str>) = if rng.chance(1, 2) { (&plain, None) } else { (&prefixed, Some("pfx")) };
    let other = Registry::new();
    let dflt = Target { custom: None, prefix: None };
    let cust = Target { custom: Some(reg), prefix };
    let label_pool = ["l1", "l2", "code"];
    let nl = 1 + rng.usize_below(3);
    let label_names: Vec<&str> = label_pool[..nl].to_vec();
    let label_names = label_names.as_slice();
    let buckets: Vec<f64> = match rng.below(9) {
        0 => vec![0.5, 1.0, 2.5],
        1 => vec![1.0],
        2 => vec![-1.0, 0.0, 10.0, 1e9],
        3 => vec![f64::NEG_INFINITY, 0.0, 1.0],
        4 => vec![f64::INFINITY],
        5 => vec![0.25, f64::INFINITY],
        6 => vec![f64::NEG_INFINITY],
        7 => vec![0.5, f64::INFINITY, 1.0], // refused by the explicit constructor
        8 if cx.case % 2 == 0 => vec![0.005, 0.02, 0.03, 0.06, 0.2, 0.3, 0.6, 2.0, 3.0, 6.0, 10.0], // same length, first and last as the defaults
        _ => vec![5e-324, 1.0, f64::MAX],
    };
    let strictly_increasing = buckets.windows(2).all(|w| w[0] < w[1]);
    let vbuckets: Vec<f64> = if strictly_increasing { buckets.clone() } else { vec![1.0, 2.0] };
    let const_labels = gen_labels(&mut rng, &label_pool);
    cx.case_tag = {
        let mut h = vcore::prng::Fnv::new();
        h.str(help);
        buckets.iter().for_each(|b| h.u64(b.to_bits()));
        let mut cl: Vec<_> = const_labels.iter().collect();
        cl.sort();
        cl.iter().for_each(|(k, v)| {
            h.str(k);
            h.str(v);
        });
        h.u64(label_names.len() as u64);
        h.finish()
    };
    let mut amount = 100 + rng.below(1000);
    let mut next_amount = || {
        amount += 7;
        amount
    };
    let n = |arm: &str| format!("{}_{}", uniq, arm);

    // ---- labels! / opts! / histogram_opts! ------------------------------------------------
    {
        cx.part.evaluations += 1;
        let (k1, v1, k2, v2) = (pools::any_string(&mut rng), pools::any_string(&mut rng), format!("{}x", pools::any_string(&mut rng)), pools::any_string(&mut rng));
        let a = labels! { k1.as_str() => v1.as_str(), k2.as_str() => v2.as_str() };
        let b = labels! { k1.as_str() => v1.as_str(), k2.as_str() => v2.as_str(), };
        let mut want: HashMap<&str, &str> = HashMap::new();
        want.insert(k1.as_str(), v1.as_str());
        want.insert(k2.as_str(), v2.as_str());
        let empty: HashMap<&str, &str> = labels! {};
        if a != want || b != want || !empty.is_empty() {
            cx.violation("labels-macro-differs-from-explicit-map", "labels!", format!("{:?} / {:?} vs {:?}", a, b, want), jobj! {"arm" => "labels!"});
        }
        let name = n("opts");
        let l1 = labels! { "a" => v1.as_str(), "b" => v2.as_str() };
        let l2 = labels! { "c" => k1.as_str(), "a" => k2.as_str(), };
        let variants: Vec<(&str, Opts, Opts)> = vec![
            ("opts!(n,h)", opts!(name.clone(), help), Opts::new(name.clone(), help)),
            ("opts!(n,h,)", opts!(name.clone(), help,), Opts::new(name.clone(), help)),
            ("opts!(n,h,l)", opts!(name.clone(), help, l1), Opts::new(name.clone(), help).const_label("a", v1.clone()).const_label("b", v2.clone())),
            ("opts!(n,h,l,l,)", opts!(name.clone(), help, l1, l2,), Opts::new(name.clone(), help).const_label("a", k2.clone()).const_label("b", v2.clone()).const_label("c", k1.clone())),
        ];
        for (arm, got, want) in variants {
            cx.part.count("macro_invocations", 1);
            if got.name != want.name || got.help != want.help || got.const_labels != want.const_labels || got.namespace != want.namespace || got.subsystem != want.subsystem || got.variable_labels != want.variable_labels {
                cx.violation("opts-macro-differs-from-explicit-options", arm, format!("{:?} vs {:?}", got, want), jobj! {"arm" => arm});
            }
        }
        let hv: Vec<(&str, HistogramOpts, HistogramOpts)> = vec![
            ("histogram_opts!(n,h)", histogram_opts!(name.clone(), help), HistogramOpts::new(name.clone(), help)),
            ("histogram_opts!(n,h,)", histogram_opts!(name.clone(), help,), HistogramOpts::new(name.clone(), help)),
            ("histogram_opts!(n,h,b)", histogram_opts!(name.clone(), help, buckets.clone()), HistogramOpts::new(name.clone(), help).buckets(buckets.clone())),
            ("histogram_opts!(n,h,b,)", histogram_opts!(name.clone(), help, buckets.clone(),), HistogramOpts::new(name.clone(), help).buckets(buckets.clone())),
            ("histogram_opts!(n,h,b,l)", histogram_opts!(name.clone(), help, buckets.clone(), const_labels.clone()), HistogramOpts::new(name.clone(), help).buckets(buckets.clone()).const_labels(const_labels.clone())),
            ("histogram_opts!(n,h,b,l,)", histogram_opts!(name.clone(), help, buckets.clone(), const_labels.clone(),), HistogramOpts::new(name.clone(), help).buckets(buckets.clone()).const_labels(const_labels.clone())),
        ];
        for (arm, got, want) in hv {
            cx.part.count("macro_invocations", 1);
            let same_b = got.buckets.len() == want.buckets.len() && got.buckets.iter().zip(want.buckets.iter()).all(|(a, b)| a.to_bits() == b.to_bits());
            if got.common_opts.name != want.common_opts.name || got.common_opts.help != want.common_opts.help || got.common_opts.const_labels != want.common_opts.const_labels || !same_b {
                cx.violation("histogram-opts-macro-differs-from-explicit-options", arm, format!("{:?} vs {:?}", got, want), jobj! {"arm" => arm});
            }
        }
    }

    // One call site per arm. `$mk` builds the options value for arms that take one.
    macro_rules! arm {
        ($arm:expr, $target:expr, $invoke:expr, $twin:expr) => {{
            let first = catch(|| $invoke);
            let second = catch(|| $invoke);
            if check_arm(cx, $arm, first, second, $twin, $target, &other, next_amount()) {
                let third = catch(|| $invoke);
                check_again(cx, $arm, third, $target);
            }
        }};
    }
    let mkopts = |name: &str| Opts::new(name.to_string(), help).const_labels(const_labels.clone());
    let mkhopts = |name: &str| HistogramOpts::new(name.to_string(), help).const_labels(const_labels.clone()).buckets(buckets.clone());
    let mkvhopts = |name: &str| HistogramOpts::new(name.to_string(), help).const_labels(const_labels.clone()).buckets(vbuckets.clone());

    // ---- scalar metrics --------------------------------------------------------------------
    macro_rules! scalar_arms {
        ($T:ident, $reg:ident, $reg_with:ident, $tag:expr) => {{
            let a = n(concat!($tag, "_o"));
            arm!(concat!(stringify!($reg), "!(opts)"), &dflt, $reg!(mkopts(&a)), $T::with_opts(mkopts(&a)));
            let a = n(concat!($tag, "_oc"));
            arm!(concat!(stringify!($reg), "!(opts,)"), &dflt, $reg!(mkopts(&a),), $T::with_opts(mkopts(&a)));
            let a = n(concat!($tag, "_nh"));
            arm!(concat!(stringify!($reg), "!(name,help)"), &dflt, $reg!(a.clone(), help), $T::with_opts(Opts::new(a.clone(), help)));
            let a = n(concat!($tag, "_nhc"));
            arm!(concat!(stringify!($reg), "!(name,help,)"), &dflt, $reg!(a.clone(), help,), $T::with_opts(Opts::new(a.clone(), help)));
            let a = n(concat!($tag, "_ro"));
            arm!(concat!(stringify!($reg_with), "!(opts,reg)"), &cust, $reg_with!(mkopts(&a), reg), $T::with_opts(mkopts(&a)));
            let a = n(concat!($tag, "_roc"));
            arm!(concat!(stringify!($reg_with), "!(opts,reg,)"), &cust, $reg_with!(mkopts(&a), reg,), $T::with_opts(mkopts(&a)));
            let a = n(concat!($tag, "_rnh"));
            arm!(concat!(stringify!($reg_with), "!(name,help,reg)"), &cust, $reg_with!(a.clone(), help, reg), $T::with_opts(Opts::new(a.clone(), help)));
            let a = n(concat!($tag, "_rnhc"));
            arm!(concat!(stringify!($reg_with), "!(name,help,reg,)"), &cust, $reg_with!(a.clone(), help, reg,), $T::with_opts(Opts::new(a.clone(), help)));
        }};
    }
    scalar_arms!(Counter, register_counter, register_counter_with_registry, "ctr");
    scalar_arms!(IntCounter, register_int_counter, register_int_counter_with_registry, "ictr");
    scalar_arms!(Gauge, register_gauge, register_gauge_with_registry, "gge");
    scalar_arms!(IntGauge, register_int_gauge, register_int_gauge_with_registry, "igge");

    // ---- vectors -----------------------------------------------------------------------------
    macro_rules! vec_arms {
        ($T:ident, $reg:ident, $reg_with:ident, $tag:expr) => {{
            let a = n(concat!($tag, "_o"));
            arm!(concat!(stringify!($reg), "!(opts,labels)"), &dflt, $reg!(mkopts(&a), label_names), $T::new(mkopts(&a), label_names));
            let a = n(concat!($tag, "_oc"));
            arm!(concat!(stringify!($reg), "!(opts,labels,)"), &dflt, $reg!(mkopts(&a), label_names,), $T::new(mkopts(&a), label_names));
            let a = n(concat!($tag, "_nh"));
            arm!(concat!(stringify!($reg), "!(name,help,labels)"), &dflt, $reg!(a.clone(), help, label_names), $T::new(Opts::new(a.clone(), help), label_names));
            let a = n(concat!($tag, "_nhc"));
            arm!(concat!(stringify!($reg), "!(name,help,labels,)"), &dflt, $reg!(a.clone(), help, label_names,), $T::new(Opts::new(a.clone(), help), label_names));
            let a = n(concat!($tag, "_ro"));
            arm!(concat!(stringify!($reg_with), "!(opts,labels,reg)"), &cust, $reg_with!(mkopts(&a), label_names, reg), $T::new(mkopts(&a), label_names));
            let a = n(concat!($tag, "_roc"));
            arm!(concat!(stringify!($reg_with), "!(opts,labels,reg,)"), &cust, $reg_with!(mkopts(&a), label_names, reg,), $T::new(mkopts(&a), label_names));
            let a = n(concat!($tag, "_rnh"));
            arm!(concat!(stringify!($reg_with), "!(name,help,labels,reg)"), &cust, $reg_with!(a.clone(), help, label_names, reg), $T::new(Opts::new(a.clone(), help), label_names));
            let a = n(concat!($tag, "_rnhc"));
            arm!(concat!(stringify!($reg_with), "!(name,help,labels,reg,)"), &cust, $reg_with!(a.clone(), help, label_names, reg,), $T::new(Opts::new(a.clone(), help), label_names));
        }};
    }
    vec_arms!(CounterVec, register_counter_vec, register_counter_vec_with_registry, "cvec");
    vec_arms!(IntCounterVec, register_int_counter_vec, register_int_counter_vec_with_registry, "icvec");
    vec_arms!(GaugeVec, register_gauge_vec, register_gauge_vec_with_registry, "gvec");
    vec_arms!(IntGaugeVec, register_int_gauge_vec, register_int_gauge_vec_with_registry, "igvec");

    // ---- histograms --------------------------------------------------------------------------
    let a = n("h_nh");
    arm!("register_histogram!(name,help)", &dflt, register_histogram!(a.clone(), help), Histogram::with_opts(HistogramOpts::new(a.clone(), help)));
    let a = n("h_nhc");
    arm!("register_histogram!(name,help,)", &dflt, register_histogram!(a.clone(), help,), Histogram::with_opts(HistogramOpts::new(a.clone(), help)));
    let a = n("h_nhb");
    arm!("register_histogram!(name,help,buckets)", &dflt, register_histogram!(a.clone(), help, buckets.clone()), Histogram::with_opts(HistogramOpts::new(a.clone(), help).buckets(buckets.clone())));
    let a = n("h_nhbc");
    arm!("register_histogram!(name,help,buckets,)", &dflt, register_histogram!(a.clone(), help, buckets.clone(),), Histogram::with_opts(HistogramOpts::new(a.clone(), help).buckets(buckets.clone())));
    let a = n("h_o");
    arm!("register_histogram!(hopts)", &dflt, register_histogram!(mkhopts(&a)), Histogram::with_opts(mkhopts(&a)));
    let a = n("h_oc");
    arm!("register_histogram!(hopts,)", &dflt, register_histogram!(mkhopts(&a),), Histogram::with_opts(mkhopts(&a)));
    let a = n("h_rnh");
    arm!("register_histogram_with_registry!(name,help,reg)", &cust, register_histogram_with_registry!(a.clone(), help, reg), Histogram::with_opts(HistogramOpts::new(a.clone(), help)));
    let a = n("h_rnhc");
    arm!("register_histogram_with_registry!(name,help,reg,)", &cust, register_histogram_with_registry!(a.clone(), help, reg,), Histogram::with_opts(HistogramOpts::new(a.clone(), help)));
    let a = n("h_rnhb");
    arm!("register_histogram_with_registry!(name,help,buckets,reg)", &cust, register_histogram_with_registry!(a.clone(), help, buckets.clone(), reg), Histogram::with_opts(HistogramOpts::new(a.clone(), help).buckets(buckets.clone())));
    let a = n("h_rnhbc");
    arm!("register_histogram_with_registry!(name,help,buckets,reg,)", &cust, register_histogram_with_registry!(a.clone(), help, buckets.clone(), reg,), Histogram::with_opts(HistogramOpts::new(a.clone(), help).buckets(buckets.clone())));
    let a = n("h_ro");
    arm!("register_histogram_with_registry!(hopts,reg)", &cust, register_histogram_with_registry!(mkhopts(&a), reg), Histogram::with_opts(mkhopts(&a)));
    let a = n("h_roc");
    arm!("register_histogram_with_registry!(hopts,reg,)", &cust, register_histogram_with_registry!(mkhopts(&a), reg,), Histogram::with_opts(mkhopts(&a)));

    let a = n("hv_o");
    arm!("register_histogram_vec!(hopts,labels)", &dflt, register_histogram_vec!(mkvhopts(&a), label_names), HistogramVec::new(mkvhopts(&a), label_names));
    let a = n("hv_oc");
    arm!("register_histogram_vec!(hopts,labels,)", &dflt, register_histogram_vec!(mkvhopts(&a), label_names,), HistogramVec::new(mkvhopts(&a), label_names));
    let a = n("hv_nh");
    arm!("register_histogram_vec!(name,help,labels)", &dflt, register_histogram_vec!(a.clone(), help, label_names), HistogramVec::new(HistogramOpts::new(a.clone(), help), label_names));
    let a = n("hv_nhc");
    arm!("register_histogram_vec!(name,help,labels,)", &dflt, register_histogram_vec!(a.clone(), help, label_names,), HistogramVec::new(HistogramOpts::new(a.clone(), help), label_names));
    let a = n("hv_nhb");
    arm!("register_histogram_vec!(name,help,labels,buckets)", &dflt, register_histogram_vec!(a.clone(), help, label_names, vbuckets.clone()), HistogramVec::new(HistogramOpts::new(a.clone(), help).buckets(vbuckets.clone()), label_names));
    let a = n("hv_nhbc");
    arm!("register_histogram_vec!(name,help,labels,buckets,)", &dflt, register_histogram_vec!(a.clone(), help, label_names, vbuckets.clone(),), HistogramVec::new(HistogramOpts::new(a.clone(), help).buckets(vbuckets.clone()), label_names));
    let a = n("hv_ro");
    arm!("register_histogram_vec_with_registry!(hopts,labels,reg)", &cust, register_histogram_vec_with_registry!(mkvhopts(&a), label_names, reg), HistogramVec::new(mkvhopts(&a), label_names));
    let a = n("hv_roc");
    arm!("register_histogram_vec_with_registry!(hopts,labels,reg,)", &cust, register_histogram_vec_with_registry!(mkvhopts(&a), label_names, reg,), HistogramVec::new(mkvhopts(&a), label_names));
    let a = n("hv_rnh");
    arm!("register_histogram_vec_with_registry!(name,help,labels,reg)", &cust, register_histogram_vec_with_registry!(a.clone(), help, label_names, reg), HistogramVec::new(HistogramOpts::new(a.clone(), help), label_names));
    let a = n("hv_rnhc");
    arm!("register_histogram_vec_with_registry!(name,help,labels,reg,)", &cust, register_histogram_vec_with_registry!(a.clone(), help, label_names, reg,), HistogramVec::new(HistogramOpts::new(a.clone(), help), label_names));
    let a = n("hv_rnhb");
    arm!(
        "register_histogram_vec_with_registry!(name,help,labels,buckets,reg)",
        &cust,
        register_histogram_vec_with_registry!(a.clone(), help, label_names, vbuckets.clone(), reg),
        HistogramVec::new(HistogramOpts::new(a.clone(), help).buckets(vbuckets.clone()), label_names)
    );
    let a = n("hv_rnhbc");
    arm!(
        "register_histogram_vec_with_registry!(name,help,labels,buckets,reg,)",
        &cust,
        register_histogram_vec_with_registry!(a.clone(), help, label_names, vbuckets.clone(), reg,),
        HistogramVec::new(HistogramOpts::new(a.clone(), help).buckets(vbuckets.clone()), label_names)
    );
    if cx.part.samples.len() < 2 {
        cx.part.sample(2, jobj! {"help" => help, "const_labels" => format!("{:?}", const_labels), "label_names" => format!("{:?}", label_names), "buckets" => format!("{:?}", buckets), "custom_registry_prefix" => format!("{:?}", prefix)});
    }
}
