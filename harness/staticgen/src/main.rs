//! C19 — static-metric accessors address exactly the declared label values.
//! The declarations and their drivers (with the expected model baked in) are written by
//! tools/gen_static.py into src/generated/ on every run; this file holds the monitor.
//!
//!   staticgen [--only-auto-flush] [--out <part.json>] --seed S
use std::collections::BTreeMap;

use prometheus::proto::MetricFamily;
use vcore::jobj;
use vcore::json::Json;
use vcore::report::{arg_map, Part, Violation};

mod generated;

pub struct Rep {
    pub part: Part,
    pub try_get_probes: u64,
    pub seed: u64,
}

impl Rep {
    pub fn fail(&mut self, program: usize, rule: &str, msg: String) {
        let replay = jobj! {"property" => "C19", "engine" => "static", "seed" => self.seed, "program" => program};
        self.part.violation(Violation { signature: format!("{}:generated-program", rule), rule: rule.to_string(), explanation: format!("program {}: {}", program, msg), replay });
    }
}

/// Compare the children of the backing vector with the model emitted by the generator.
pub fn compare(r: &mut Rep, program: usize, base: &str, mfs: Vec<MetricFamily>, expected: Vec<(Vec<(&str, &str)>, f64, u64)>, npaths: u64, bounds: Option<Vec<f64>>) {
    r.part.evaluations += 1;
    r.part.count("accessor_paths_executed", npaths);
    r.part.count("declared_leaves", expected.len() as u64);
    let mut got: BTreeMap<Vec<(String, String)>, (f64, u64)> = BTreeMap::new();
    for mf in &mfs {
        for m in mf.get_metric() {
            let mut labels: Vec<(String, String)> = m.get_label().iter().map(|l| (l.name().to_string(), l.value().to_string())).collect();
            labels.sort();
            let v = match base {
                "Counter" | "IntCounter" => (m.get_counter().value(), 0),
                "Gauge" | "IntGauge" => (m.get_gauge().value(), 0),
                _ => (m.get_histogram().get_sample_sum(), m.get_histogram().get_sample_count()),
            };
            if let (Some(want_bounds), "Histogram") = (&bounds, base) {
                let got_bounds: Vec<f64> = m.get_histogram().get_bucket().iter().map(|b| b.upper_bound()).collect();
                if &got_bounds != want_bounds {
                    r.fail(program, "registered-vector-has-other-buckets", format!("the vector registered through the macro has bucket bounds {:?}, the call named {:?}", got_bounds, want_bounds));
                }
            }
            if got.insert(labels.clone(), v).is_some() {
                r.fail(program, "child-exported-twice", format!("{:?}", labels));
            }
        }
    }
    let mut want: BTreeMap<Vec<(String, String)>, (f64, u64)> = BTreeMap::new();
    for (pairs, sum, count) in expected {
        let mut labels: Vec<(String, String)> = pairs.iter().map(|(k, v)| (k.to_string(), v.to_string())).collect();
        labels.sort();
        let e = want.entry(labels).or_insert((0.0, 0));
        e.0 += sum;
        e.1 += count;
    }
    for (labels, (sum, count)) in &want {
        match got.get(labels) {
            None => r.fail(program, "declared-child-missing", format!("no child with labels {:?} in the backing vector; children: {:?}", labels, got.keys().collect::<Vec<_>>())),
            Some((gs, gc)) => {
                // histograms may hold timed-closure observations of a few nanoseconds each: amounts are integers >= 1
                let sum_ok = if base == "Histogram" { (gs - sum).abs() < 0.5 } else { gs == sum };
                if !sum_ok || (base == "Histogram" && gc != count) {
                    r.fail(program, "accessor-addresses-wrong-child", format!("child {:?} holds {} ({} observations) but the updates made through the accessors declared for it total {} ({} updates)", labels, gs, gc, sum, count));
                }
            }
        }
    }
    for labels in got.keys() {
        if !want.contains_key(labels) {
            r.fail(program, "undeclared-child-created", format!("the backing vector has a child {:?} that no declared path names", labels));
        }
    }
    r.part.distinct.insert({
        let mut h = vcore::prng::Fnv::new();
        h.u64(program as u64);
        for (l, v) in &want {
            for (a, b) in l {
                h.str(a);
                h.str(b);
            }
            h.u64(v.0.to_bits());
        }
        h.finish()
    });
}

fn main() {
    let args: Vec<String> = std::env::args().skip(1).collect();
    let m = arg_map(&args);
    let seed: u64 = m.get("seed").and_then(|s| s.parse().ok()).unwrap_or(1);
    let only_af = m.contains_key("only-auto-flush");
    let rule = "one case = one generated static-metric declaration (macro invocation) with its driver: every declared leaf is updated through field paths, get(enum) and try_get(str) mixes and the backing vector is compared with the generator's model; distinct = distinct declarations (labels, values, expected amounts)";
    let mut r = Rep { part: Part::new("C19", if only_af { "static-memcheck" } else { "static" }, seed, rule), try_get_probes: 0, seed };
    for (idx, auto_flush, run) in generated::PROGRAMS {
        if only_af && !auto_flush {
            continue;
        }
        let before = r.part.evaluations;
        let res = std::panic::catch_unwind(std::panic::AssertUnwindSafe(|| run(&mut r)));
        if let Err(p) = res {
            let msg = p.downcast_ref::<String>().cloned().or_else(|| p.downcast_ref::<&str>().map(|s| s.to_string())).unwrap_or_default();
            r.fail(*idx, "generated-program-panicked", msg);
        }
        if *auto_flush {
            r.part.count("auto_flush_programs", 1);
        }
        let _ = before;
    }
    let probes = r.try_get_probes;
    r.part.count("try_get_undeclared_probes", probes);
    if let Ok(s) = std::fs::read_to_string(concat!(env!("CARGO_MANIFEST_DIR"), "/src/generated/programs.json")) {
        if let Ok(Json::Arr(a)) = Json::parse(&s) {
            for d in a.into_iter().take(2) {
                r.part.sample(2, d);
            }
        }
    }
    if let Some(out) = m.get("out") {
        r.part.write(out);
    } else {
        println!("{}", r.part.to_json().to_string());
    }
    if r.part.violated() {
        for v in &r.part.violations {
            eprintln!("violation {}: {}", v.signature, v.explanation);
        }
        std::process::exit(1);
    }
}
