//! C01 — counter increments are never lost and never go backwards.
//!
//! Every increment adds a unique power of four, so any value read decodes to the
//! exact set of increments it contains. Histories are recorded at the client
//! boundary; the oracle is linear in the history for the reset-free shape and a
//! linearizability search for the shape with reset().
use std::collections::HashMap;

use prometheus::core::{Collector, Metric};
use prometheus::{Counter, CounterVec, IntCounter, IntCounterVec, Opts, Registry};
use vcore::digits::{decode_u64, mask_to_vec, unit_u64};
use vcore::jobj;
use vcore::json::Json;
use vcore::prng::Rng;
use vcore::report::Part;
use vcore::wgl::{self, Entry, Model, Verdict};

use crate::common::{account_outcome, violation, Job, Rec, Sinks};
use crate::sched::{run_threads, Engine};

#[derive(Clone, Copy, Debug, PartialEq, Eq)]
pub enum Flavour {
    F64,
    U64,
}

#[derive(Clone, Copy, Debug, PartialEq, Eq)]
pub enum Access {
    Standalone,
    /// one handle that is never cloned (not registered anywhere), shared by reference between the threads
    Unshared,
    /// child of a vector, fetched by every thread itself (creation race in play)
    VecChild,
    /// child of a vector fetched through the map form
    VecChildMap,
}

#[derive(Clone, Copy, Debug, PartialEq, Eq)]
pub enum Via {
    Get,
    Metric,
    Collect,
    Gather,
}

#[derive(Clone, Debug)]
pub enum COp {
    /// inc_by(4^j)
    IncBy(usize),
    /// inc() == digit 0
    Inc,
    /// the thread's local handle (kept across batches): inc_by each digit locally, then flush
    /// (`twice`: flush a second time right away, which must add nothing)
    /// (`cloned`: a clone of the local handle taken while the batch is pending is flushed as well;
    /// a clone starts empty, so that flush must add nothing)
    /// (`via_local_vec`: vector access only - the batch goes through the thread's LocalCounterVec handle, which
    /// then looks up a dozen other label sets before the flush, so its child cache grows past its small sizes)
    Batch { digits: Vec<usize>, twice: bool, cloned: bool, via_local_vec: bool },
    Read(Via),
    Reset,
}

#[derive(Clone, Debug)]
pub struct Scenario {
    pub flavour: Flavour,
    pub access: Access,
    /// integer flavour: digits spread up to 4^30 (values beyond 2^53 and u32::MAX); reads through get() only,
    /// the exposed f64 cannot hold such values exactly
    pub wide: bool,
    pub with_reset: bool,
    pub threads: Vec<Vec<COp>>,
}

#[derive(Clone, Debug)]
pub enum CRec {
    Add { mask: u64, batch: bool },
    /// exact non-negative integer value read (None: not such a number) and its printed form
    Read { value: Option<u64>, raw: String, via: Via },
    Reset,
}

#[derive(Clone)]
enum Ctr {
    F(Counter),
    U(IntCounter),
}

fn f64_to_exact(v: f64) -> Option<u64> {
    if v >= 0.0 && v < 9007199254740992.0 && v.fract() == 0.0 {
        Some(v as u64)
    } else {
        None
    }
}

impl Ctr {
    fn inc_by(&self, amount: u64) {
        match self {
            Ctr::F(c) => c.inc_by(amount as f64),
            Ctr::U(c) => c.inc_by(amount),
        }
    }
    fn inc(&self) {
        match self {
            Ctr::F(c) => c.inc(),
            Ctr::U(c) => c.inc(),
        }
    }
    fn reset(&self) {
        match self {
            Ctr::F(c) => c.reset(),
            Ctr::U(c) => c.reset(),
        }
    }
    fn get(&self) -> (Option<u64>, String) {
        match self {
            Ctr::F(c) => {
                let v = c.get();
                (f64_to_exact(v), format!("{:?}", v))
            }
            Ctr::U(c) => {
                let v = c.get();
                (Some(v), v.to_string())
            }
        }
    }
    fn metric_value(&self) -> (Option<u64>, String) {
        let m = match self {
            Ctr::F(c) => c.metric(),
            Ctr::U(c) => c.metric(),
        };
        let v = m.get_counter().value();
        (f64_to_exact(v), format!("{:?}", v))
    }
    fn local(&self) -> LocalH {
        match self {
            Ctr::F(c) => LocalH::F(c.local()),
            Ctr::U(c) => LocalH::U(c.local()),
        }
    }
}

enum LocalV {
    F(prometheus::local::LocalCounterVec),
    U(prometheus::local::LocalIntCounterVec),
}

enum LocalH {
    F(prometheus::local::LocalCounter),
    U(prometheus::local::LocalIntCounter),
}

impl LocalH {
    fn add(&self, digits: &[usize]) {
        for j in digits {
            match self {
                LocalH::F(l) => l.inc_by(unit_u64(*j) as f64),
                LocalH::U(l) => l.inc_by(unit_u64(*j)),
            }
        }
    }
    fn flush(&self) {
        match self {
            LocalH::F(l) => l.flush(),
            LocalH::U(l) => l.flush(),
        }
    }
    fn clone_handle(&self) -> LocalH {
        match self {
            LocalH::F(l) => LocalH::F(l.clone()),
            LocalH::U(l) => LocalH::U(l.clone()),
        }
    }
}

enum Handle<'a> {
    Borrowed(&'a Ctr),
    Owned(Ctr),
}

impl std::ops::Deref for Handle<'_> {
    type Target = Ctr;
    fn deref(&self) -> &Ctr {
        match self {
            Handle::Borrowed(c) => c,
            Handle::Owned(c) => c,
        }
    }
}

enum Holder {
    Standalone(Ctr),
    Unshared(Ctr),
    VecF(CounterVec),
    VecU(IntCounterVec),
}

struct World {
    holder: Holder,
    registry: Registry,
    name: String,
    access: Access,
}

const LV: &[&str] = &["x", "y"];

impl World {
    fn new(sc: &Scenario) -> World {
        let name = "c01_total".to_string();
        let opts = Opts::new(name.clone(), "c01 help").const_label("k", "v");
        let registry = Registry::new();
        let holder = match (sc.access, sc.flavour) {
            (Access::Unshared, Flavour::F64) => Holder::Unshared(Ctr::F(Counter::with_opts(opts).unwrap())),
            (Access::Unshared, Flavour::U64) => Holder::Unshared(Ctr::U(IntCounter::with_opts(opts).unwrap())),
            (Access::Standalone, Flavour::F64) => {
                let c = Counter::with_opts(opts).unwrap();
                registry.register(Box::new(c.clone())).unwrap();
                Holder::Standalone(Ctr::F(c))
            }
            (Access::Standalone, Flavour::U64) => {
                let c = IntCounter::with_opts(opts).unwrap();
                registry.register(Box::new(c.clone())).unwrap();
                Holder::Standalone(Ctr::U(c))
            }
            (_, Flavour::F64) => {
                let v = CounterVec::new(opts, &["a", "b"]).unwrap();
                registry.register(Box::new(v.clone())).unwrap();
                Holder::VecF(v)
            }
            (_, Flavour::U64) => {
                let v = IntCounterVec::new(opts, &["a", "b"]).unwrap();
                registry.register(Box::new(v.clone())).unwrap();
                Holder::VecU(v)
            }
        };
        World { holder, registry, name, access: sc.access }
    }

    /// The way a thread reaches the shared counter (every call goes through the vector again;
    /// the unshared handle is only ever borrowed).
    fn handle(&self) -> Handle<'_> {
        Handle::Owned(match &self.holder {
            Holder::Unshared(c) => return Handle::Borrowed(c),
            Holder::Standalone(c) => c.clone(),
            Holder::VecF(v) => {
                if self.access == Access::VecChildMap {
                    let mut m = HashMap::new();
                    m.insert("b", LV[1]);
                    m.insert("a", LV[0]);
                    Ctr::F(v.with(&m))
                } else {
                    Ctr::F(v.with_label_values(LV))
                }
            }
            Holder::VecU(v) => {
                if self.access == Access::VecChildMap {
                    let mut m = HashMap::new();
                    m.insert("a", LV[0]);
                    m.insert("b", LV[1]);
                    Ctr::U(v.with(&m))
                } else {
                    Ctr::U(v.with_label_values(LV))
                }
            }
        })
    }

    fn value_in_families(&self, mfs: &[prometheus::proto::MetricFamily], name: &str) -> (Option<u64>, String) {
        let mut found: Vec<f64> = Vec::new();
        for mf in mfs {
            if mf.name() == name {
                for m in mf.get_metric() {
                    // other children of the vector (looked up by local-vector handles) are not under test
                    let ls = m.get_label();
                    let is_other = ls.iter().any(|l| l.name() == "a" && l.value() != LV[0]);
                    if !is_other {
                        found.push(m.get_counter().value());
                    }
                }
            }
        }
        match found.len() {
            0 => (Some(0), "absent(0)".into()), // child not created yet: nothing exported
            1 => (f64_to_exact(found[0]), format!("{:?}", found[0])),
            n => (None, format!("{} samples {:?}", n, found)),
        }
    }

    fn read(&self, via: Via) -> (Option<u64>, String) {
        match via {
            Via::Get => self.handle().get(),
            Via::Metric => self.handle().metric_value(),
            Via::Collect => {
                let mfs = match &self.holder {
                    Holder::Standalone(Ctr::F(c)) | Holder::Unshared(Ctr::F(c)) => c.collect(),
                    Holder::Standalone(Ctr::U(c)) | Holder::Unshared(Ctr::U(c)) => c.collect(),
                    Holder::VecF(v) => v.collect(),
                    Holder::VecU(v) => v.collect(),
                };
                self.value_in_families(&mfs, &self.name)
            }
            Via::Gather => {
                if let Holder::Unshared(_) = &self.holder {
                    // not registered anywhere: read it directly instead
                    return self.handle().get();
                }
                let mfs = self.registry.gather();
                self.value_in_families(&mfs, &self.name)
            }
        }
    }
}

pub fn generate(rng: &mut Rng, job: &Job) -> Scenario {
    let flavour = if rng.chance(1, 2) { Flavour::F64 } else { Flavour::U64 };
    let access = match rng.below(5) {
        0 | 1 => Access::Standalone,
        2 => Access::Unshared,
        3 => Access::VecChild,
        _ => Access::VecChildMap,
    };
    let with_reset = rng.chance(1, 5);
    let wide = flavour == Flavour::U64 && !with_reset && rng.chance(1, 4);
    let small = job.engine == Engine::Native;
    let nthreads = if small { 2 + rng.usize_below(2) } else { 2 + rng.usize_below(3) };
    let max_ops = if small { 3 } else { 5 };
    let mut next_digit = 1usize;
    let mut inc_used = false;
    let mut threads = Vec::new();
    let max_digits = if with_reset { 10 } else { 24 };
    for _ in 0..nthreads {
        let nops = 2 + rng.usize_below(max_ops - 1);
        let mut ops = Vec::new();
        for _ in 0..nops {
            let r = rng.below(100);
            if with_reset && r < 12 {
                ops.push(COp::Reset);
            } else if r < 55 && next_digit < max_digits {
                match rng.below(6) {
                    0 if !inc_used => {
                        inc_used = true;
                        ops.push(COp::Inc);
                    }
                    1 | 2 if next_digit + 3 < max_digits => {
                        let k = 2 + rng.usize_below(2);
                        let ds: Vec<usize> = (next_digit..next_digit + k).collect();
                        next_digit += k;
                        let via_local_vec = matches!(access, Access::VecChild | Access::VecChildMap) && rng.chance(1, 2);
                        ops.push(COp::Batch { digits: ds, twice: rng.chance(1, 3), cloned: rng.chance(1, 3), via_local_vec });
                    }
                    _ => {
                        ops.push(COp::IncBy(next_digit));
                        next_digit += 1;
                    }
                }
            } else {
                let via = match rng.below(6) {
                    0 | 1 => Via::Get,
                    2 => Via::Metric,
                    3 | 4 => Via::Collect,
                    _ => Via::Gather,
                };
                ops.push(COp::Read(via));
            }
        }
        threads.push(ops);
    }
    if wide {
        // spread the digits over the whole u64 range and read exactly
        let used: Vec<usize> = (1..next_digit).collect();
        let mut targets: Vec<usize> = (1..31).collect();
        rng.shuffle(&mut targets);
        let map: std::collections::HashMap<usize, usize> = used.iter().copied().zip(targets.into_iter()).collect();
        for ops in threads.iter_mut() {
            for op in ops.iter_mut() {
                match op {
                    COp::IncBy(j) => *j = map[j],
                    COp::Batch { digits, .. } => digits.iter_mut().for_each(|j| *j = map[j]),
                    COp::Read(v) => *v = Via::Get,
                    _ => {}
                }
            }
        }
    }
    Scenario { flavour, access, wide, with_reset, threads }
}

fn via_name(v: Via) -> &'static str {
    match v {
        Via::Get => "get",
        Via::Metric => "metric",
        Via::Collect => "collect",
        Via::Gather => "gather",
    }
}

pub fn scenario_json(sc: &Scenario) -> Json {
    let threads: Vec<Json> = sc
        .threads
        .iter()
        .map(|ops| {
            Json::Arr(
                ops.iter()
                    .map(|o| match o {
                        COp::IncBy(j) => Json::Str(format!("inc_by(4^{})", j)),
                        COp::Inc => Json::Str("inc()".into()),
                        COp::Batch { digits, twice, cloned, via_local_vec } => Json::Str(format!("{} inc_by 4^{:?}; {}flush{}", if *via_local_vec { "local vec (+12 other label sets)" } else { "local" }, digits, if *cloned { "clone, flush the clone; " } else { "" }, if *twice { "; flush" } else { "" })),
                        COp::Read(v) => Json::Str(format!("read via {}", via_name(*v))),
                        COp::Reset => Json::Str("reset()".into()),
                    })
                    .collect(),
            )
        })
        .collect();
    jobj! {
        "flavour" => format!("{:?}", sc.flavour),
        "access" => format!("{:?}", sc.access),
        "with_reset" => sc.with_reset,
        "wide_digits" => sc.wide,
        "threads" => Json::Arr(threads),
    }
}

pub fn history_json(h: &[Rec<CRec>]) -> Json {
    Json::Arr(
        h.iter()
            .map(|r| {
                let what = match &r.op {
                    CRec::Add { mask, batch } => format!("{} digits {:?}", if *batch { "flush" } else { "inc" }, mask_to_vec(*mask)),
                    CRec::Read { value, raw, via } => format!("read[{}] = {} digits {:?}", via_name(*via), raw, value.map(|v| decode_u64(v).set())),
                    CRec::Reset => "reset".into(),
                };
                Json::Str(format!("t{} [{}..{}] {}", r.tid, r.call, r.ret, what))
            })
            .collect(),
    )
}

pub struct Execution {
    pub history: Vec<Rec<CRec>>,
    pub finals: Vec<Rec<CRec>>,
    pub outcome: crate::sched::Outcome,
}

pub fn execute(sc: &Scenario, job: &Job, case: u64) -> Execution {
    let world = World::new(sc);
    let sinks: Sinks<CRec> = Sinks::new(sc.threads.len());
    let cfg = job.run_cfg(case, false);
    let outcome = run_threads(&cfg, sc.threads.len(), &|tid| {
        // one local handle per thread, reused by all of the thread's batches
        let mut local: Option<LocalH> = None;
        let mut local_vec: Option<LocalV> = None;
        for op in &sc.threads[tid] {
            match op {
                COp::IncBy(j) => {
                    let amount = unit_u64(*j);
                    sinks.call(tid, || world.handle().inc_by(amount), |_| CRec::Add { mask: 1 << *j, batch: false });
                }
                COp::Inc => {
                    sinks.call(tid, || world.handle().inc(), |_| CRec::Add { mask: 1, batch: false });
                }
                COp::Batch { digits, via_local_vec: true, .. } => {
                    let mut mask = 0u64;
                    for j in digits {
                        mask |= 1 << *j;
                    }
                    match (&world.holder, &mut local_vec) {
                        (Holder::VecF(v), lv) => {
                            let lv = match lv {
                                Some(LocalV::F(l)) => l,
                                _ => {
                                    *lv = Some(LocalV::F(v.local()));
                                    match lv {
                                        Some(LocalV::F(l)) => l,
                                        _ => unreachable!(),
                                    }
                                }
                            };
                            for j in digits {
                                lv.with_label_values(LV).inc_by(unit_u64(*j) as f64);
                            }
                            for k in 0..12 {
                                let other = format!("other{}", k);
                                let _ = lv.with_label_values(&[other.as_str(), "z"]);
                            }
                            sinks.call(tid, || lv.flush(), |_| CRec::Add { mask, batch: true });
                        }
                        (Holder::VecU(v), lv) => {
                            let lv = match lv {
                                Some(LocalV::U(l)) => l,
                                _ => {
                                    *lv = Some(LocalV::U(v.local()));
                                    match lv {
                                        Some(LocalV::U(l)) => l,
                                        _ => unreachable!(),
                                    }
                                }
                            };
                            for j in digits {
                                lv.with_label_values(LV).inc_by(unit_u64(*j));
                            }
                            for k in 0..12 {
                                let other = format!("other{}", k);
                                let _ = lv.with_label_values(&[other.as_str(), "z"]);
                            }
                            sinks.call(tid, || lv.flush(), |_| CRec::Add { mask, batch: true });
                        }
                        _ => unreachable!("via_local_vec is only generated for vector access"),
                    }
                }
                COp::Batch { digits, twice, cloned, .. } => {
                    let l = local.get_or_insert_with(|| world.handle().local());
                    l.add(digits);
                    if *cloned {
                        let c = l.clone_handle();
                        sinks.call(tid, || c.flush(), |_| CRec::Add { mask: 0, batch: true });
                    }
                    let mut mask = 0u64;
                    for j in digits {
                        mask |= 1 << *j;
                    }
                    sinks.call(tid, || l.flush(), |_| CRec::Add { mask, batch: true });
                    if *twice {
                        // nothing was accumulated since: this flush must not add anything
                        sinks.call(tid, || l.flush(), |_| CRec::Add { mask: 0, batch: true });
                    }
                }
                COp::Read(via) => {
                    sinks.call(tid, || world.read(*via), |r| CRec::Read { value: r.0, raw: r.1.clone(), via: *via });
                }
                COp::Reset => {
                    sinks.call(tid, || world.handle().reset(), |_| CRec::Reset);
                }
            }
        }
    });
    let history = sinks.into_history();
    // after all threads joined: read through every path
    let fin: Sinks<CRec> = Sinks::new(1);
    if outcome.abort.is_none() {
        let vias: &[Via] = if sc.wide { &[Via::Get] } else { &[Via::Get, Via::Metric, Via::Collect, Via::Gather] };
        for via in vias.iter().copied() {
            fin.call(0, || world.read(via), |r| CRec::Read { value: r.0, raw: r.1.clone(), via });
        }
    }
    Execution { history, finals: fin.into_history(), outcome }
}

struct CounterModel;
impl Model for CounterModel {
    type State = u64;
    type Op = CRec;
    fn init(&self) -> u64 {
        0
    }
    fn step(&self, s: &u64, op: &CRec) -> Option<u64> {
        match op {
            CRec::Add { mask, .. } => {
                let mut v = *s;
                for j in mask_to_vec(*mask) {
                    v = v.wrapping_add(unit_u64(j));
                }
                Some(v)
            }
            CRec::Reset => Some(0),
            CRec::Read { value, .. } => {
                if *value == Some(*s) {
                    Some(*s)
                } else {
                    None
                }
            }
        }
    }
}

/// Returns (rule, site, explanation) for every violated rule.
pub fn check(sc: &Scenario, ex: &Execution) -> Vec<(String, String, String)> {
    let mut out = Vec::new();
    let site = format!("{:?}/{:?}", sc.flavour, sc.access);
    let all_mask: u64 = ex
        .history
        .iter()
        .filter_map(|r| match &r.op {
            CRec::Add { mask, .. } => Some(*mask),
            _ => None,
        })
        .fold(0, |a, b| a | b);
    if sc.with_reset {
        let mut entries: Vec<Entry<CRec>> = ex.history.iter().map(|r| Entry { op: r.op.clone(), call: r.call, ret: r.ret }).collect();
        entries.extend(ex.finals.iter().map(|r| Entry { op: r.op.clone(), call: r.call, ret: r.ret }));
        if entries.len() <= 60 {
            match wgl::check(&CounterModel, &entries, 2_000_000) {
                Verdict::Linearizable(_) => {}
                Verdict::NotLinearizable(best) => out.push((
                    "counter-history-not-linearizable".to_string(),
                    site.clone(),
                    format!("no order of inc/flush/reset/read consistent with real time explains the values read (longest explained prefix: {} of {} operations)", best.len(), entries.len()),
                )),
                Verdict::Inconclusive => out.push(("__inconclusive".into(), site.clone(), "linearizability search budget exhausted".into())),
            }
        }
        return out;
    }
    let adds: Vec<&Rec<CRec>> = ex.history.iter().filter(|r| matches!(r.op, CRec::Add { .. })).collect();
    let reads: Vec<&Rec<CRec>> = ex.history.iter().chain(ex.finals.iter()).filter(|r| matches!(r.op, CRec::Read { .. })).collect();
    for r in &reads {
        let (value, raw, via) = match &r.op {
            CRec::Read { value, raw, via } => (value, raw, via),
            _ => unreachable!(),
        };
        let site_v = format!("{}/{}", site, via_name(*via));
        let v = match value {
            None => {
                out.push(("read-not-a-sum-of-increments".into(), site_v, format!("read {} is not a sum of the increments issued", raw)));
                continue;
            }
            Some(v) => *v,
        };
        let d = decode_u64(v);
        if let Some(j) = d.overflow() {
            out.push(("increment-applied-more-than-once".into(), site_v.clone(), format!("read {} contains increment 4^{} {} times", raw, j, d.digit(j))));
            continue;
        }
        let m = d.mask();
        if m & !all_mask != 0 {
            out.push(("read-contains-unknown-amount".into(), site_v.clone(), format!("read {} contains digits {:?} that no increment added", raw, mask_to_vec(m & !all_mask))));
            continue;
        }
        for a in &adds {
            let (mask, batch) = match &a.op {
                CRec::Add { mask, batch } => (*mask, *batch),
                _ => unreachable!(),
            };
            if mask == 0 {
                continue; // an empty second flush: nothing to find in the value
            }
            let got = m & mask;
            if got != 0 && got != mask {
                out.push(("flushed-batch-torn".into(), site_v.clone(), format!("read {} contains digits {:?} of a flushed batch {:?}", raw, mask_to_vec(got), mask_to_vec(mask))));
                continue;
            }
            if a.ret < r.call && got == 0 {
                out.push((
                    "completed-increment-missing".into(),
                    site_v.clone(),
                    format!("{} of digits {:?} returned at {} but the read started at {} returned {}", if batch { "flush" } else { "inc" }, mask_to_vec(mask), a.ret, r.call, raw),
                ));
            }
            if a.call > r.ret && got != 0 {
                out.push(("increment-visible-before-it-started".into(), site_v.clone(), format!("read returned at {} contains digits {:?} of an increment called at {}", r.ret, mask_to_vec(mask), a.call)));
            }
        }
    }
    // reads that follow one another in real time never decrease
    for r1 in &reads {
        for r2 in &reads {
            if r1.ret < r2.call {
                if let (CRec::Read { value: Some(v1), raw: raw1, .. }, CRec::Read { value: Some(v2), raw: raw2, via }) = (&r1.op, &r2.op) {
                    if v1 > v2 {
                        out.push(("value-went-backwards".into(), format!("{}/{}", site, via_name(*via)), format!("read {} (returned at {}) was followed by read {} (called at {})", raw1, r1.ret, raw2, r2.call)));
                    }
                }
            }
        }
    }
    // after all threads finished the value is the sum of all increments
    if ex.outcome.abort.is_none() {
        for r in &ex.finals {
            if let CRec::Read { value, raw, via } = &r.op {
                if *value != Some(decoded_sum(all_mask)) {
                    out.push(("final-value-not-the-sum".into(), format!("{}/{}", site, via_name(*via)), format!("after all threads finished the value is {} but the increments sum to {}", raw, decoded_sum(all_mask))));
                }
            }
        }
    }
    out
}

fn decoded_sum(mask: u64) -> u64 {
    mask_to_vec(mask).into_iter().map(unit_u64).sum()
}

/// E1 volume shape: plain inc() from many threads, monotone readers, exact final total.
fn run_volume(job: &Job, part: &mut Part, round: u64) {
    use std::sync::atomic::{AtomicBool, Ordering};
    for flavour in [Flavour::F64, Flavour::U64] {
        let ctr = match flavour {
            Flavour::F64 => Ctr::F(Counter::new("c01_volume", "h").unwrap()),
            Flavour::U64 => Ctr::U(IntCounter::new("c01_volume", "h").unwrap()),
        };
        let writers = 6usize;
        let per = if job.thorough { 200_000u64 } else { 40_000 };
        let done = AtomicBool::new(false);
        let bad = std::sync::Mutex::new(Vec::new());
        let reads = std::sync::atomic::AtomicU64::new(0);
        let mut cfg = job.run_cfg(round, false);
        cfg.spurious_den = 16;
        let finished = std::sync::atomic::AtomicU64::new(0);
        let out = run_threads(&cfg, writers + 2, &|tid| {
            if tid < writers {
                for _ in 0..per {
                    ctr.inc();
                }
                if finished.fetch_add(1, Ordering::SeqCst) + 1 == writers as u64 {
                    done.store(true, Ordering::SeqCst);
                }
            } else {
                let mut last = 0u64;
                let mut n = 0u64;
                while !done.load(Ordering::SeqCst) {
                    let (v, raw) = if tid == writers { ctr.get() } else { ctr.metric_value() };
                    n += 1;
                    match v {
                        Some(v) if v >= last && v <= writers as u64 * per => last = v,
                        _ => {
                            bad.lock().unwrap().push(format!("reader saw {} after {} (max possible {})", raw, last, writers as u64 * per));
                            break;
                        }
                    }
                }
                reads.fetch_add(n, Ordering::SeqCst);
            }
        });
        account_outcome(part, job, round, &out, "volume");
        part.evaluations += 1;
        part.count("e1_volume_increments", writers as u64 * per);
        part.count("e1_volume_reads", reads.load(Ordering::SeqCst));
        let (fin, raw) = ctr.get();
        if fin != Some(writers as u64 * per) {
            violation(part, job, round, "volume-final-value-not-the-sum", &format!("{:?}", flavour), format!("{} threads x {} inc() gave {}", writers, per, raw), Json::Null);
        }
        for b in bad.into_inner().unwrap() {
            violation(part, job, round, "volume-reader-non-monotonic", &format!("{:?}", flavour), b, Json::Null);
        }
    }
}

pub fn run_case(job: &Job, case: u64, part: &mut Part) {
    let mut rng = Rng::derive(job.seed, case.wrapping_mul(2).wrapping_add(0xC01));
    let sc = generate(&mut rng, job);
    let ex = execute(&sc, job, case);
    part.evaluations += 1;
    account_outcome(part, job, case, &ex.outcome, "counter");
    if let Some(a) = &ex.outcome.abort {
        part.count("aborted_runs", 1);
        part.notes.push(format!("case {} aborted: {:?}", case, a));
        part.inconclusive = Some(format!("case {} did not run to completion: {:?}", case, a));
        return;
    }
    // overlap statistics: reads that overlap at least one increment
    let mut overlapping = 0u64;
    for r in &ex.history {
        if let CRec::Read { .. } = r.op {
            if ex.history.iter().any(|a| matches!(a.op, CRec::Add { .. }) && a.call < r.ret && r.call < a.ret) {
                overlapping += 1;
            }
        }
    }
    part.count("reads_overlapping_an_increment", overlapping);
    part.count("history_operations", (ex.history.len() + ex.finals.len()) as u64);
    if sc.with_reset {
        part.count("histories_with_reset_checked_by_search", 1);
    }
    if matches!(sc.access, Access::VecChild | Access::VecChildMap) {
        part.count("histories_through_vector_child", 1);
    }
    if job.engine != Engine::E2 {
        // no schedule signature on these engines: distinct = distinct recorded histories
        let mut h = vcore::prng::Fnv::new();
        for r in &ex.history {
            h.u64(r.tid as u64);
            h.u64(r.call);
            h.u64(r.ret);
            if let CRec::Read { value, .. } = &r.op {
                h.u64(value.unwrap_or(u64::MAX));
            }
        }
        part.distinct.insert(h.finish());
    }
    let findings = check(&sc, &ex);
    let detail = jobj! {"scenario" => scenario_json(&sc), "history" => history_json(&ex.history), "final_reads" => history_json(&ex.finals)};
    if part.samples.len() < 3 {
        part.sample(3, detail.clone());
    }
    for (rule, site, expl) in findings {
        if rule == "__inconclusive" {
            part.count("search_inconclusive", 1);
            continue;
        }
        violation(part, job, case, &rule, &site, expl, detail.clone());
    }
    if job.verbose {
        println!("{}", detail.to_string());
    }
}

pub fn run(job: &Job, part: &mut Part) {
    match job.engine {
        Engine::E1 => {
            let start = std::time::Instant::now();
            let mut case = job.first_case;
            let mut round = 0;
            while start.elapsed().as_secs_f64() < job.secs {
                for _ in 0..200 {
                    run_case(job, case, part);
                    case += 1;
                }
                if round < 2 || job.thorough {
                    run_volume(job, part, round);
                }
                round += 1;
            }
        }
        _ => {
            for case in job.first_case..job.first_case + job.cases {
                run_case(job, case, part);
            }
        }
    }
}
