//! Trace monitors for histogram executions under the E2 scheduler.
//!
//! The E2 trace is a sequentially consistent interleaving of the library's
//! atomic steps, so "reads-from" is "last write to that address". Two monitors:
//!
//! 1. **Happens-before monitor** (memory-ordering clause of C02). Vector clocks
//!    with the C++/Rust rules: a release store/RMW publishes the thread's clock
//!    into the location, an RMW continues release sequences, a relaxed store
//!    breaks them, an acquire load/RMW of the location joins what was published,
//!    mutex unlock/lock are release/acquire. `shard_and_count`, the shards'
//!    `count` words and the collect lock are synchronisation; each shard's `sum`
//!    and `buckets[i]` are the protected data and never contribute edges.
//!    Obligations: (a) when a collector drains a cell (swap), every update of
//!    that cell since its previous drain happens-before the drain; (b) when a
//!    thread updates a cell, the previous drain of that cell happens-before the
//!    update.
//! 2. **Progress monitor** (bounded-collect clause of C03): once every observer
//!    that was in flight at the flip has published, the collector's next
//!    genuinely attempted compare-exchange must succeed.
//!
//! Both understand only what the shim reports (atomics, Mutex); fences would
//! need a wrapper first.
use std::collections::HashMap;

use crate::sched::{Kind, TraceEv};

#[derive(Clone, Debug)]
pub struct Layout {
    pub shard_and_count: usize,
    pub collect_lock: usize,
    pub count: [usize; 2],
    pub sum: [usize; 2],
    pub buckets: [Vec<usize>; 2],
}

#[derive(Clone, Copy, Debug, PartialEq, Eq)]
enum Loc {
    Sc,
    Lock,
    Count(usize),
    Sum(usize),
    Bucket(usize, usize),
}

#[derive(Debug, Default)]
pub struct Stats {
    pub hb_obligations_checked: u64,
    pub flips: u64,
    pub observers_straddling_flip: u64,
    pub flips_with_inflight_observers: u64,
    pub collector_spin_iterations: u64,
    pub collectors_contending_for_lock: u64,
    pub claims: u64,
    pub drains: u64,
}

#[derive(Debug)]
pub struct Finding {
    pub rule: &'static str,
    pub site: String,
    pub explanation: String,
}

type Clock = Vec<u64>;

fn join(a: &mut Clock, b: &Clock) {
    for (x, y) in a.iter_mut().zip(b.iter()) {
        if *y > *x {
            *x = *y;
        }
    }
}

fn loc_name(l: Loc) -> String {
    match l {
        Loc::Sc => "shard_and_count".into(),
        Loc::Lock => "collect lock".into(),
        Loc::Count(s) => format!("shard {} count", s),
        Loc::Sum(s) => format!("shard {} sum", s),
        Loc::Bucket(s, i) => format!("shard {} bucket {}", s, i),
    }
}

pub fn analyze(trace: &[TraceEv], lay: &Layout, nthreads: usize) -> (Stats, Vec<Finding>) {
    let mut map: HashMap<usize, Loc> = HashMap::new();
    map.insert(lay.shard_and_count, Loc::Sc);
    map.insert(lay.collect_lock, Loc::Lock);
    for s in 0..2 {
        map.insert(lay.count[s], Loc::Count(s));
        map.insert(lay.sum[s], Loc::Sum(s));
        for (i, a) in lay.buckets[s].iter().enumerate() {
            map.insert(*a, Loc::Bucket(s, i));
        }
    }
    let mut stats = Stats::default();
    let mut findings: Vec<Finding> = Vec::new();
    let mut clocks: Vec<Clock> = vec![vec![0; nthreads]; nthreads];
    // published clocks of the synchronisation locations
    let mut rel: HashMap<usize, Clock> = HashMap::new();
    // per data cell: updates since the last drain (tid, stamp), and the last drain (tid, stamp)
    let mut updates: HashMap<usize, Vec<(usize, u64)>> = HashMap::new();
    let mut last_drain: HashMap<usize, (usize, u64)> = HashMap::new();
    // progress monitor state
    let mut lock_holder: Option<usize> = None;
    // amount claimed on each shard and not yet published (robust to how a publish is split)
    let mut pending: [i128; 2] = [0, 0];
    let mut cold_after_flip: Option<usize> = None;
    let mut reported: std::collections::BTreeSet<(&'static str, String)> = Default::default();

    for e in trace {
        let t = e.tid as usize;
        if t >= nthreads {
            continue;
        }
        let loc = match map.get(&e.addr) {
            Some(l) => *l,
            None => continue, // some other object (vector lock, other metric)
        };
        clocks[t][t] += 1;
        let stamp = clocks[t][t];
        let is_rmw = matches!(e.kind, Kind::FetchAdd | Kind::FetchSub | Kind::Swap) || (e.kind == Kind::Cas && e.ok);
        match loc {
            Loc::Lock => match e.kind {
                Kind::MutexTryLock => {
                    if e.ok {
                        if let Some(r) = rel.get(&e.addr) {
                            let r = r.clone();
                            join(&mut clocks[t], &r);
                        }
                        lock_holder = Some(t);
                    } else {
                        stats.collectors_contending_for_lock += 1;
                    }
                }
                Kind::MutexUnlock => {
                    rel.insert(e.addr, clocks[t].clone());
                    lock_holder = None;
                    cold_after_flip = None;
                }
                _ => {}
            },
            Loc::Sc | Loc::Count(_) => {
                // synchronisation words
                match e.kind {
                    Kind::Load => {
                        if e.ord.acquires() {
                            if let Some(r) = rel.get(&e.addr) {
                                let r = r.clone();
                                join(&mut clocks[t], &r);
                            }
                        }
                    }
                    Kind::Store => {
                        if e.ord.releases() {
                            rel.insert(e.addr, clocks[t].clone());
                        } else {
                            rel.remove(&e.addr);
                        }
                    }
                    Kind::Cas if !e.ok => {
                        if e.fail_ord.acquires() {
                            if let Some(r) = rel.get(&e.addr) {
                                let r = r.clone();
                                join(&mut clocks[t], &r);
                            }
                        }
                    }
                    _ if is_rmw => {
                        if e.ord.acquires() {
                            if let Some(r) = rel.get(&e.addr) {
                                let r = r.clone();
                                join(&mut clocks[t], &r);
                            }
                        }
                        if e.ord.releases() {
                            let c = clocks[t].clone();
                            let entry = rel.entry(e.addr).or_insert_with(|| vec![0; nthreads]);
                            join(entry, &c);
                        }
                    }
                    _ => {}
                }
                // progress bookkeeping
                match (loc, e.kind) {
                    (Loc::Sc, Kind::FetchAdd) => {
                        let shard = (e.result >> 63) as usize;
                        if e.operand == 1u64 << 63 {
                            stats.flips += 1;
                            let n = pending[shard];
                            stats.observers_straddling_flip += n.max(0) as u64;
                            if n > 0 {
                                stats.flips_with_inflight_observers += 1;
                            }
                            cold_after_flip = Some(shard);
                        } else {
                            stats.claims += 1;
                            pending[shard] += e.operand as i128;
                        }
                    }
                    (Loc::Count(s), Kind::FetchAdd) => {
                        if lock_holder != Some(t) {
                            // an observer publishes (part of) what it claimed
                            pending[s] -= e.operand as i128;
                        }
                    }
                    (Loc::Count(s), Kind::Cas) if lock_holder == Some(t) => {
                        if !e.ok && !e.spurious {
                            stats.collector_spin_iterations += 1;
                            if cold_after_flip == Some(s) && pending[s] == 0 {
                                let key = ("collect-waits-after-inflight-observers-finished", loc_name(loc));
                                if reported.insert(key.clone()) {
                                    findings.push(Finding {
                                        rule: key.0,
                                        site: "progress".into(),
                                        explanation: format!(
                                            "every observer that was in flight at the flip has published its count, yet the collector's compare-exchange on {} (expected {}, found {}) still fails: the collect waits for something other than in-flight observations",
                                            loc_name(loc), e.expected, e.result
                                        ),
                                    });
                                }
                            }
                        }
                    }
                    _ => {}
                }
            }
            Loc::Sum(_) | Loc::Bucket(_, _) => {
                let drain = e.kind == Kind::Swap;
                let update = matches!(e.kind, Kind::FetchAdd | Kind::FetchSub) || (e.kind == Kind::Cas && e.ok) || e.kind == Kind::Store;
                if drain {
                    stats.drains += 1;
                    for (ut, ustamp) in updates.remove(&e.addr).unwrap_or_default() {
                        stats.hb_obligations_checked += 1;
                        if ut != t && clocks[t][ut] < ustamp {
                            let key = ("hb-drain-not-ordered-after-update", loc_name(loc));
                            if reported.insert(key.clone()) {
                                findings.push(Finding {
                                    rule: key.0,
                                    site: "memory-ordering".into(),
                                    explanation: format!(
                                        "thread {} drains {} but the update of that cell by thread {} is not ordered before the drain by any release/acquire edge on shard_and_count, the shard count or the collect lock (the hand-off is too weak for a weakly ordered machine)",
                                        t, loc_name(loc), ut
                                    ),
                                });
                            }
                        }
                    }
                    last_drain.insert(e.addr, (t, stamp));
                } else if update {
                    if let Some((dt, dstamp)) = last_drain.get(&e.addr).copied() {
                        stats.hb_obligations_checked += 1;
                        if dt != t && clocks[t][dt] < dstamp {
                            let key = ("hb-update-not-ordered-after-previous-drain", loc_name(loc));
                            if reported.insert(key.clone()) {
                                findings.push(Finding {
                                    rule: key.0,
                                    site: "memory-ordering".into(),
                                    explanation: format!(
                                        "thread {} updates {} but the previous drain of that cell by thread {} is not ordered before the update by any release/acquire edge (claim/flip/lock too weak, or the update raced with the drain)",
                                        t, loc_name(loc), dt
                                    ),
                                });
                            }
                        }
                    }
                    updates.entry(e.addr).or_default().push((t, stamp));
                }
            }
        }
    }
    (stats, findings)
}
