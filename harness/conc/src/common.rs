//! Pieces shared by the concurrent workloads: client-boundary history records,
//! case configuration, violation helpers.
use std::sync::Mutex;

use vcore::jobj;
use vcore::json::Json;
use vcore::report::{Part, Violation};

use crate::sched::{self, Engine, Outcome, RunCfg, Strategy};

/// One completed client call: stamps are taken from the global ticket counter
/// immediately before invoking and immediately after the call returned.
#[derive(Clone, Debug)]
pub struct Rec<O> {
    pub tid: usize,
    pub op: O,
    pub call: u64,
    pub ret: u64,
}

/// Per-thread record sink (threads never share a sink while running).
pub struct Sinks<O> {
    per_thread: Vec<Mutex<Vec<Rec<O>>>>,
}

impl<O: Clone> Sinks<O> {
    pub fn new(n: usize) -> Sinks<O> {
        Sinks { per_thread: (0..n).map(|_| Mutex::new(Vec::new())).collect() }
    }
    /// Stamp, run `f`, stamp, record `mk(result)`.
    pub fn call<R>(&self, tid: usize, f: impl FnOnce() -> R, mk: impl FnOnce(&R) -> O) -> R {
        let c = sched::stamp();
        let r = f();
        let t = sched::stamp();
        let op = mk(&r);
        self.per_thread[tid].lock().unwrap().push(Rec { tid, op, call: c, ret: t });
        r
    }
    pub fn into_history(self) -> Vec<Rec<O>> {
        let mut all: Vec<Rec<O>> = Vec::new();
        for m in self.per_thread {
            all.extend(m.into_inner().unwrap_or_else(|e| e.into_inner()));
        }
        all.sort_by_key(|r| r.call);
        all
    }
}

/// What a harness process was asked to do.
#[derive(Clone, Debug)]
pub struct Job {
    pub property: String,
    pub engine: Engine,
    pub seed: u64,
    /// first case index and number of cases (E2), or seconds (E1)
    pub first_case: u64,
    pub cases: u64,
    pub secs: f64,
    pub thorough: bool,
    pub verbose: bool,
}

impl Job {
    pub fn engine_name(&self) -> &'static str {
        match self.engine {
            Engine::Native => "native",
            Engine::E1 => "e1",
            Engine::E2 => "e2",
        }
    }
    /// Run configuration of case `case`.
    pub fn run_cfg(&self, case: u64, keep_trace: bool) -> RunCfg {
        let strategy = Strategy::from_index(case.wrapping_add(self.seed));
        RunCfg {
            engine: self.engine,
            seed: self.seed.wrapping_mul(0x9E37_79B9).wrapping_add(case),
            strategy,
            // every sixteenth case is a "CAS storm": (almost) every weak compare-exchange of a thread fails
            // spuriously, dozens of times in a row - legal for the weak form, and it crosses retry limits
            spurious_den: if case % 16 == 5 { 1 } else if case % 3 == 0 { 0 } else { 4 },
            spurious_cap: if case % 16 == 5 { 40 } else { 2 },
            step_budget: 200_000,
            quiet_limit: 10_000,
            keep_trace,
        }
    }
    pub fn replay_json(&self, case: u64, extra: Json) -> Json {
        jobj! {
            "property" => self.property.clone(),
            "engine" => self.engine_name(),
            "seed" => self.seed,
            "case" => case,
            "thorough" => self.thorough,
            "detail" => extra,
        }
    }
}

pub fn violation(part: &mut Part, job: &Job, case: u64, rule: &str, site: &str, explanation: String, detail: Json) {
    part.violation(Violation {
        signature: format!("{}:{}", rule, site),
        rule: rule.to_string(),
        explanation,
        replay: job.replay_json(case, detail),
    });
}

/// Account for engine-level facts of one execution; library panics are violations.
pub fn account_outcome(part: &mut Part, job: &Job, case: u64, out: &Outcome, what: &str) {
    part.count("steps", out.steps);
    part.count("spurious_cas_failures_injected", out.spurious_injected);
    part.count("cas_failures_observed", out.cas_failures);
    part.count("lock_acquire_failures_observed", out.lock_failures);
    part.count("perturbations", out.perturbations);
    if out.signature != 0 {
        part.distinct.insert(out.signature);
    }
    for (tid, msg) in &out.panics {
        violation(
            part,
            job,
            case,
            "library-panic",
            &first_words(msg),
            format!("thread {} panicked inside the workload ({}): {}", tid, what, msg),
            Json::Null,
        );
    }
}

fn first_words(s: &str) -> String {
    s.split_whitespace().take(6).collect::<Vec<_>>().join(" ")
}

pub fn hex(v: u64) -> String {
    format!("{:#x}", v)
}
