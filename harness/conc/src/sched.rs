//! Execution engines for the concurrent workloads.
//!
//! * `Engine::Native`  – plain threads, no hook (used under Miri and as a smoke engine).
//! * `Engine::E1`      – plain threads on real hardware with a perturbation hook that
//!                       injects spins / yields / short sleeps / spurious CAS failures
//!                       before every atomic or lock step of the library.
//! * `Engine::E2`      – token-passing scheduler: exactly one workload thread runs between
//!                       two hook calls, the interleaving of the library's atomic steps is
//!                       chosen by a seeded PRNG, every step is recorded in a trace.
//!
//! E1 and E2 need the library built with `--cfg prometheus_verif`.

use std::cell::Cell;
use std::panic::{catch_unwind, resume_unwind, AssertUnwindSafe};
use std::sync::atomic::{AtomicU64, Ordering as AO};
#[cfg(prometheus_verif)]
use std::sync::{Condvar, Mutex};

use vcore::prng::{Fnv, Rng};

/// Global ticket counter for client-boundary stamps (harness-owned, SeqCst).
static TICKET: AtomicU64 = AtomicU64::new(1);

#[inline]
pub fn stamp() -> u64 {
    TICKET.fetch_add(1, AO::SeqCst)
}

#[derive(Clone, Copy, Debug, PartialEq, Eq, Hash)]
pub enum Kind {
    Load,
    Store,
    Swap,
    FetchAdd,
    FetchSub,
    Cas,
    MutexTryLock,
    MutexUnlock,
    RwTryRead,
    RwTryWrite,
    RwUnlockRead,
    RwUnlockWrite,
    Start,
}

#[derive(Clone, Copy, Debug, PartialEq, Eq)]
pub enum MemOrd {
    Relaxed,
    Acquire,
    Release,
    AcqRel,
    SeqCst,
}

impl MemOrd {
    pub fn acquires(self) -> bool {
        matches!(self, MemOrd::Acquire | MemOrd::AcqRel | MemOrd::SeqCst)
    }
    pub fn releases(self) -> bool {
        matches!(self, MemOrd::Release | MemOrd::AcqRel | MemOrd::SeqCst)
    }
}

/// One executed step of the library, in the total order chosen by the scheduler.
#[derive(Clone, Copy, Debug)]
pub struct TraceEv {
    pub tid: u8,
    pub kind: Kind,
    pub addr: usize,
    pub ord: MemOrd,
    pub fail_ord: MemOrd,
    pub operand: u64,
    pub expected: u64,
    pub result: u64,
    pub ok: bool,
    pub spurious: bool,
}

#[derive(Clone, Copy, Debug, PartialEq, Eq)]
pub enum Strategy {
    Uniform,
    /// keep running the same thread, switch with probability 1/n
    Sticky(u32),
    /// random priorities with `d` change points (PCT-like)
    Pct(u32),
}

impl Strategy {
    pub fn name(&self) -> String {
        match self {
            Strategy::Uniform => "uniform".into(),
            Strategy::Sticky(n) => format!("sticky{}", n),
            Strategy::Pct(d) => format!("pct{}", d),
        }
    }
    pub fn from_index(i: u64) -> Strategy {
        match i % 8 {
            0 | 1 => Strategy::Uniform,
            2 => Strategy::Sticky(2),
            3 => Strategy::Sticky(8),
            4 => Strategy::Sticky(32),
            5 => Strategy::Pct(1),
            6 => Strategy::Pct(2),
            _ => Strategy::Pct(4),
        }
    }
}

#[derive(Clone, Debug, PartialEq, Eq)]
pub enum Abort {
    /// For `n` consecutive steps nothing changed any shared word: every runnable
    /// thread re-reads unchanged state, nothing can ever change again.
    QuiescentSpin { spinners: Vec<usize> },
    StepBudget,
}

#[derive(Debug, Default)]
pub struct Outcome {
    pub trace: Vec<TraceEv>,
    pub steps: u64,
    pub abort: Option<Abort>,
    /// panic messages of workload threads (library panics), by thread
    pub panics: Vec<(usize, String)>,
    pub signature: u64,
    pub spurious_injected: u64,
    pub cas_failures: u64,
    pub lock_failures: u64,
    pub perturbations: u64,
}

#[derive(Clone, Copy, Debug, PartialEq, Eq)]
pub enum Engine {
    Native,
    E1,
    E2,
}

#[derive(Clone, Debug)]
pub struct RunCfg {
    pub engine: Engine,
    pub seed: u64,
    pub strategy: Strategy,
    /// 1/n of the weak CAS attempts are made to fail spuriously (0 = never)
    pub spurious_den: u32,
    /// at most this many injected failures in a row per thread (a weak CAS may legally fail any number of times)
    pub spurious_cap: u32,
    pub step_budget: u64,
    pub quiet_limit: u64,
    pub keep_trace: bool,
}

impl RunCfg {
    pub fn native() -> RunCfg {
        RunCfg { engine: Engine::Native, seed: 0, strategy: Strategy::Uniform, spurious_den: 0, spurious_cap: 2, step_budget: 0, quiet_limit: 0, keep_trace: false }
    }
}

thread_local! {
    static TID: Cell<usize> = const { Cell::new(usize::MAX) };
    static UNWINDING: Cell<bool> = const { Cell::new(false) };
    static E1_RNG: Cell<u64> = const { Cell::new(0) };
    static E1_CNT: Cell<(u64, u64, u64, u64)> = const { Cell::new((0, 0, 0, 0)) };
}

struct AbortToken;

fn panic_message(p: &Box<dyn std::any::Any + Send>) -> Option<String> {
    if p.is::<AbortToken>() {
        return None;
    }
    if let Some(s) = p.downcast_ref::<&str>() {
        return Some((*s).to_string());
    }
    if let Some(s) = p.downcast_ref::<String>() {
        return Some(s.clone());
    }
    Some("<non-string panic payload>".into())
}

/// Run `body(tid)` on `n` threads under the configured engine.
pub fn run_threads(cfg: &RunCfg, n: usize, body: &(dyn Fn(usize) + Sync)) -> Outcome {
    match cfg.engine {
        Engine::Native => run_native(n, body),
        #[cfg(prometheus_verif)]
        Engine::E1 => e1::run(cfg, n, body),
        #[cfg(prometheus_verif)]
        Engine::E2 => e2::run(cfg, n, body),
        #[cfg(not(prometheus_verif))]
        _ => panic!("engines e1/e2 need the library built with --cfg prometheus_verif"),
    }
}

fn run_native(n: usize, body: &(dyn Fn(usize) + Sync)) -> Outcome {
    let mut out = Outcome::default();
    let panics = std::sync::Mutex::new(Vec::new());
    std::thread::scope(|s| {
        for tid in 0..n {
            let panics = &panics;
            s.spawn(move || {
                if let Err(p) = catch_unwind(AssertUnwindSafe(|| body(tid))) {
                    if let Some(m) = panic_message(&p) {
                        panics.lock().unwrap().push((tid, m));
                    }
                }
            });
        }
    });
    out.panics = panics.into_inner().unwrap();
    out
}

#[cfg(prometheus_verif)]
fn conv_kind(k: prometheus::verif_sync::OpKind) -> Kind {
    use prometheus::verif_sync::OpKind as O;
    match k {
        O::Load => Kind::Load,
        O::Store => Kind::Store,
        O::Swap => Kind::Swap,
        O::FetchAdd => Kind::FetchAdd,
        O::FetchSub => Kind::FetchSub,
        O::CasWeak => Kind::Cas,
        O::MutexTryLock => Kind::MutexTryLock,
        O::MutexUnlock => Kind::MutexUnlock,
        O::RwTryRead => Kind::RwTryRead,
        O::RwTryWrite => Kind::RwTryWrite,
        O::RwUnlockRead => Kind::RwUnlockRead,
        O::RwUnlockWrite => Kind::RwUnlockWrite,
    }
}

#[cfg(prometheus_verif)]
fn conv_ord(o: std::sync::atomic::Ordering) -> MemOrd {
    use std::sync::atomic::Ordering as O;
    match o {
        O::Relaxed => MemOrd::Relaxed,
        O::Acquire => MemOrd::Acquire,
        O::Release => MemOrd::Release,
        O::AcqRel => MemOrd::AcqRel,
        _ => MemOrd::SeqCst,
    }
}

// ---------------------------------------------------------------------------
// E1: perturbation on real hardware
// ---------------------------------------------------------------------------
#[cfg(prometheus_verif)]
mod e1 {
    use super::*;
    use prometheus::verif_sync::{set_hook, Action, Event, OpKind, Phase};

    static SPURIOUS_DEN: AtomicU64 = AtomicU64::new(0);

    fn next(r: u64) -> u64 {
        // xorshift64*
        let mut x = r;
        x ^= x >> 12;
        x ^= x << 25;
        x ^= x >> 27;
        x
    }

    fn hook(e: &Event) -> Action {
        if TID.with(|t| t.get()) == usize::MAX {
            return Action::Continue;
        }
        match e.phase {
            Phase::Before => {
                let r = E1_RNG.with(|c| {
                    let v = next(c.get());
                    c.set(v);
                    v.wrapping_mul(0x2545_F491_4F6C_DD1D)
                });
                let sel = (r >> 20) & 0x1ff;
                let mut perturbed = 1;
                if sel < 300 {
                    perturbed = 0;
                } else if sel < 440 {
                    let k = (r >> 32) & 0x7ff;
                    for _ in 0..k {
                        std::hint::spin_loop();
                    }
                } else if sel < 511 {
                    std::thread::yield_now();
                } else {
                    std::thread::sleep(std::time::Duration::from_micros(50));
                }
                let mut spur = 0;
                let mut act = Action::Continue;
                if e.kind == OpKind::CasWeak {
                    let den = SPURIOUS_DEN.load(AO::Relaxed);
                    if den != 0 && (r >> 44) % den == 0 {
                        act = Action::SpuriousFail;
                        spur = 1;
                    }
                }
                E1_CNT.with(|c| {
                    let (a, b, d, f) = c.get();
                    c.set((a + perturbed, b + spur, d, f));
                });
                act
            }
            Phase::After => {
                if !e.ok {
                    E1_CNT.with(|c| {
                        let (a, b, d, f) = c.get();
                        if e.kind == OpKind::CasWeak {
                            c.set((a, b, d + 1, f));
                        } else {
                            c.set((a, b, d, f + 1));
                        }
                    });
                }
                Action::Continue
            }
        }
    }

    pub fn run(cfg: &RunCfg, n: usize, body: &(dyn Fn(usize) + Sync)) -> Outcome {
        // E1 has no per-thread cap on consecutive injected failures: never inject on every attempt
        // (the "CAS storm" configuration is an E2 mode)
        let den = if cfg.spurious_den == 1 { 4 } else { cfg.spurious_den };
        SPURIOUS_DEN.store(den as u64, AO::Relaxed);
        set_hook(Some(hook));
        let mut out = Outcome::default();
        let panics = std::sync::Mutex::new(Vec::new());
        let totals = std::sync::Mutex::new((0u64, 0u64, 0u64, 0u64));
        let go = std::sync::Barrier::new(n);
        std::thread::scope(|s| {
            for tid in 0..n {
                let panics = &panics;
                let totals = &totals;
                let go = &go;
                let seed = cfg.seed;
                s.spawn(move || {
                    TID.with(|t| t.set(tid));
                    E1_RNG.with(|c| c.set(Rng::derive(seed, tid as u64 + 1).next_u64() | 1));
                    E1_CNT.with(|c| c.set((0, 0, 0, 0)));
                    go.wait();
                    let r = catch_unwind(AssertUnwindSafe(|| body(tid)));
                    TID.with(|t| t.set(usize::MAX));
                    if let Err(p) = r {
                        if let Some(m) = panic_message(&p) {
                            panics.lock().unwrap().push((tid, m));
                        }
                    }
                    let c = E1_CNT.with(|c| c.get());
                    let mut t = totals.lock().unwrap();
                    t.0 += c.0;
                    t.1 += c.1;
                    t.2 += c.2;
                    t.3 += c.3;
                });
            }
        });
        set_hook(None);
        out.panics = panics.into_inner().unwrap();
        let t = totals.into_inner().unwrap();
        out.perturbations = t.0;
        out.spurious_injected = t.1;
        out.cas_failures = t.2;
        out.lock_failures = t.3;
        out
    }
}

// ---------------------------------------------------------------------------
// E2: seeded token-passing scheduler
// ---------------------------------------------------------------------------
#[cfg(prometheus_verif)]
mod e2 {
    use super::*;
    use prometheus::verif_sync::{set_hook, Action, Event, OpKind, Phase};

    #[derive(Clone, Copy, PartialEq, Eq, Debug)]
    enum Th {
        NotStarted,
        Waiting,
        Running,
        Finished,
    }

    struct State {
        n: usize,
        status: Vec<Th>,
        pending_kind: Vec<Kind>,
        pending_addr: Vec<usize>,
        action_spurious: Vec<bool>,
        current: Option<usize>,
        last: Option<usize>,
        arrived: usize,
        rng: Rng,
        strategy: Strategy,
        spurious_den: u32,
        spurious_cap: u32,
        spur_streak: Vec<u32>,
        fail_streak: Vec<u32>,
        prio: Vec<i64>,
        min_prio: i64,
        change_points: Vec<u64>,
        trace: Vec<TraceEv>,
        keep_trace: bool,
        steps: u64,
        quiet: u64,
        step_budget: u64,
        quiet_limit: u64,
        abort: Option<Abort>,
        sig: Fnv,
        addr_ids: Vec<usize>,
        spurious_injected: u64,
        cas_failures: u64,
        lock_failures: u64,
    }

    static S: Mutex<Option<State>> = Mutex::new(None);
    static CV: Condvar = Condvar::new();

    fn addr_class(st: &mut State, addr: usize) -> u64 {
        if let Some(i) = st.addr_ids.iter().position(|a| *a == addr) {
            return i as u64;
        }
        st.addr_ids.push(addr);
        (st.addr_ids.len() - 1) as u64
    }

    /// Choose the next thread to run among the waiting ones. Caller holds the lock.
    fn pick_next(st: &mut State) {
        if st.abort.is_some() {
            return;
        }
        let cands: Vec<usize> = (0..st.n).filter(|t| st.status[*t] == Th::Waiting).collect();
        if cands.is_empty() {
            st.current = None;
            return;
        }
        if st.steps >= st.step_budget {
            st.abort = Some(Abort::StepBudget);
            return;
        }
        if st.quiet >= st.quiet_limit {
            st.abort = Some(Abort::QuiescentSpin { spinners: cands.clone() });
            return;
        }
        let mut chosen = match st.strategy {
            Strategy::Uniform => cands[st.rng.usize_below(cands.len())],
            Strategy::Sticky(p) => match st.last {
                Some(l) if cands.contains(&l) && st.fail_streak[l] == 0 && !st.rng.chance(1, p as u64) => l,
                _ => cands[st.rng.usize_below(cands.len())],
            },
            Strategy::Pct(_) => {
                if st.change_points.contains(&st.steps) {
                    if let Some(l) = st.last {
                        st.min_prio -= 1;
                        st.prio[l] = st.min_prio;
                    }
                }
                *cands.iter().max_by_key(|t| st.prio[**t]).unwrap()
            }
        };
        // A thread whose last step was a failed spin attempt (CAS / try-lock) waits for
        // someone else: mostly prefer threads that can make progress.
        if st.fail_streak[chosen] > 0 {
            let prog: Vec<usize> = cands.iter().copied().filter(|t| st.fail_streak[*t] == 0).collect();
            if !prog.is_empty() && !st.rng.chance(1, 8) {
                chosen = match st.strategy {
                    Strategy::Pct(_) => *prog.iter().max_by_key(|t| st.prio[**t]).unwrap(),
                    _ => prog[st.rng.usize_below(prog.len())],
                };
            }
        }
        let mut spur = false;
        if st.pending_kind[chosen] == Kind::Cas && st.spurious_den != 0 && st.spur_streak[chosen] < st.spurious_cap && st.rng.chance(1, st.spurious_den as u64) {
            spur = true;
            st.spur_streak[chosen] += 1;
            st.spurious_injected += 1;
        } else if st.pending_kind[chosen] == Kind::Cas {
            st.spur_streak[chosen] = 0;
        }
        st.action_spurious[chosen] = spur;
        st.current = Some(chosen);
        st.last = Some(chosen);
        st.steps += 1;
    }

    fn bail() -> ! {
        UNWINDING.with(|u| u.set(true));
        resume_unwind(Box::new(AbortToken));
    }

    /// Give the token back, wait for our turn. Returns whether to fail spuriously.
    fn yield_and_wait(tid: usize, kind: Kind, addr: usize) -> bool {
        let mut g = S.lock().unwrap_or_else(|e| e.into_inner());
        {
            let st = g.as_mut().expect("scheduler not initialised");
            if st.abort.is_some() {
                drop(g);
                bail();
            }
            let first = st.status[tid] == Th::NotStarted;
            st.status[tid] = Th::Waiting;
            st.pending_kind[tid] = kind;
            st.pending_addr[tid] = addr;
            if first {
                st.arrived += 1;
                if st.arrived == st.n {
                    pick_next(st);
                    CV.notify_all();
                }
            } else {
                st.current = None;
                pick_next(st);
                CV.notify_all();
            }
        }
        loop {
            let st = g.as_mut().unwrap();
            if st.abort.is_some() {
                drop(g);
                bail();
            }
            if st.current == Some(tid) {
                st.status[tid] = Th::Running;
                return st.action_spurious[tid];
            }
            g = CV.wait(g).unwrap_or_else(|e| e.into_inner());
        }
    }

    fn finish(tid: usize) {
        let mut g = S.lock().unwrap_or_else(|e| e.into_inner());
        let st = g.as_mut().unwrap();
        if st.status[tid] == Th::NotStarted {
            st.arrived += 1;
        }
        st.status[tid] = Th::Finished;
        st.quiet = 0;
        if st.current == Some(tid) || st.current.is_none() {
            st.current = None;
            if st.arrived == st.n {
                pick_next(st);
            }
        }
        CV.notify_all();
    }

    fn hook(e: &Event) -> Action {
        let tid = TID.with(|t| t.get());
        if tid == usize::MAX || UNWINDING.with(|u| u.get()) {
            return Action::Continue;
        }
        match e.phase {
            Phase::Before => {
                if yield_and_wait(tid, conv_kind(e.kind), e.addr) {
                    Action::SpuriousFail
                } else {
                    Action::Continue
                }
            }
            Phase::After => {
                let mut g = S.lock().unwrap_or_else(|e| e.into_inner());
                let st = g.as_mut().unwrap();
                let kind = conv_kind(e.kind);
                let spurious = e.kind == OpKind::CasWeak && st.action_spurious[tid];
                let changed = match kind {
                    Kind::Load => false,
                    Kind::Cas | Kind::MutexTryLock | Kind::RwTryRead | Kind::RwTryWrite => e.ok,
                    _ => true,
                };
                if changed {
                    st.quiet = 0;
                } else {
                    st.quiet += 1;
                }
                if !e.ok {
                    st.fail_streak[tid] += 1;
                    if kind == Kind::Cas {
                        st.cas_failures += 1;
                    } else {
                        st.lock_failures += 1;
                    }
                    if let Strategy::Pct(_) = st.strategy {
                        st.min_prio -= 1;
                        st.prio[tid] = st.min_prio;
                    }
                } else {
                    st.fail_streak[tid] = 0;
                }
                let cls = addr_class(st, e.addr);
                st.sig.byte(tid as u8);
                st.sig.byte(kind as u8);
                st.sig.byte(cls as u8);
                st.sig.byte(e.ok as u8);
                if st.keep_trace {
                    st.trace.push(TraceEv {
                        tid: tid as u8,
                        kind,
                        addr: e.addr,
                        ord: conv_ord(e.ordering),
                        fail_ord: conv_ord(e.failure),
                        operand: e.operand,
                        expected: e.expected,
                        result: e.result,
                        ok: e.ok,
                        spurious,
                    });
                }
                Action::Continue
            }
        }
    }

    pub fn run(cfg: &RunCfg, n: usize, body: &(dyn Fn(usize) + Sync)) -> Outcome {
        let mut rng = Rng::derive(cfg.seed, 0x5ced);
        let mut prio: Vec<i64> = (0..n as i64).map(|i| 1000 + i).collect();
        rng.shuffle(&mut prio);
        let mut change_points = Vec::new();
        if let Strategy::Pct(d) = cfg.strategy {
            for _ in 0..d {
                change_points.push(rng.below(400));
            }
        }
        {
            let mut g = S.lock().unwrap_or_else(|e| e.into_inner());
            *g = Some(State {
                n,
                status: vec![Th::NotStarted; n],
                pending_kind: vec![Kind::Start; n],
                pending_addr: vec![0; n],
                action_spurious: vec![false; n],
                current: None,
                last: None,
                arrived: 0,
                rng,
                strategy: cfg.strategy,
                spurious_den: cfg.spurious_den,
                spurious_cap: cfg.spurious_cap,
                spur_streak: vec![0; n],
                fail_streak: vec![0; n],
                prio,
                min_prio: 0,
                change_points,
                trace: Vec::new(),
                keep_trace: cfg.keep_trace,
                steps: 0,
                quiet: 0,
                step_budget: cfg.step_budget,
                quiet_limit: cfg.quiet_limit,
                abort: None,
                sig: Fnv::new(),
                addr_ids: Vec::new(),
                spurious_injected: 0,
                cas_failures: 0,
                lock_failures: 0,
            });
        }
        set_hook(Some(hook));
        let panics = std::sync::Mutex::new(Vec::new());
        std::thread::scope(|s| {
            for tid in 0..n {
                let panics = &panics;
                s.spawn(move || {
                    TID.with(|t| t.set(tid));
                    UNWINDING.with(|u| u.set(false));
                    let r = catch_unwind(AssertUnwindSafe(|| {
                        yield_and_wait(tid, Kind::Start, 0);
                        body(tid)
                    }));
                    UNWINDING.with(|u| u.set(true));
                    if let Err(p) = r {
                        if let Some(m) = panic_message(&p) {
                            panics.lock().unwrap().push((tid, m));
                        }
                    }
                    finish(tid);
                    TID.with(|t| t.set(usize::MAX));
                    UNWINDING.with(|u| u.set(false));
                });
            }
        });
        set_hook(None);
        let st = S.lock().unwrap_or_else(|e| e.into_inner()).take().unwrap();
        Outcome {
            trace: st.trace,
            steps: st.steps,
            abort: st.abort,
            panics: panics.into_inner().unwrap(),
            signature: st.sig.finish(),
            spurious_injected: st.spurious_injected,
            cas_failures: st.cas_failures,
            lock_failures: st.lock_failures,
            perturbations: 0,
        }
    }
}
