//! C06 under threads — register / unregister / gather on one Registry from several threads.
//!
//! The statement speaks of "any history of register and unregister calls"; a history issued by
//! several threads is one. Three or four threads, aligned by a spin barrier before every
//! operation, register and unregister collectors taken from a small pool of templates with
//! overlapping descriptors and gather in between. Oracles:
//!
//! * the register/unregister outcomes (`Ok` / `AlreadyReg` / other `Err`, `Ok` / `Err`) must be
//!   explained by executing the calls one at a time, in an order consistent with real time,
//!   against the statement's admission rule (Wing-Gong-Lowe search, `vcore::wgl`); a closing
//!   sequential probe (register every template, then unregister it) is part of the history, so
//!   the state the concurrent phase left behind is judged too - a refused registration that left
//!   a trace, or two conflicting registrations that both went through, has no explanation;
//! * gathers take part in that search as reads: the set of descriptors a gather shows must be the
//!   registered set at its place in the order (the collector set of one gather is one state of
//!   the registry - what holding the registry lock over the call gives today, and what the Go
//!   client gives by copying the collector list under its lock); sample *values* are not judged;
//! * for sharper messages the same is also checked descriptor by descriptor: a gather shows each
//!   descriptor that was registered for the whole duration of the call and none that was
//!   unregistered (or never registered) for the whole duration;
//! * a gathered family list is strictly increasing by name and holds no sample twice.
use std::collections::{BTreeMap, BTreeSet, HashMap};
use std::sync::atomic::{AtomicUsize, Ordering};

use prometheus::core::{Collector, Desc};
use prometheus::proto::MetricFamily;
use prometheus::{Counter, CounterVec, Error, Gauge, Histogram, HistogramOpts, Opts, Registry};
use vcore::jobj;
use vcore::json::Json;
use vcore::prng::{Fnv, Rng};
use vcore::report::Part;
use vcore::wgl::{self, Entry, Model, Verdict};

use crate::common::{account_outcome, violation, Job, Sinks};
use crate::sched::{run_threads, Engine};

type Key = (String, Vec<String>);
type Dims = (String, BTreeSet<String>, BTreeSet<String>);

#[derive(Clone, Debug)]
struct Spec {
    name: String,
    help: String,
    consts: Vec<(String, String)>,
    vars: Vec<String>,
    kind: u8,
}

impl Spec {
    fn key(&self) -> Key {
        let mut c = self.consts.clone();
        c.sort();
        (self.name.clone(), c.into_iter().map(|p| p.1).collect())
    }
    fn dims(&self) -> Dims {
        (self.help.clone(), self.consts.iter().map(|c| c.0.clone()).collect(), self.vars.iter().cloned().collect())
    }
    fn build(&self) -> Box<dyn Collector> {
        let mut cl = HashMap::new();
        for (k, v) in &self.consts {
            cl.insert(k.clone(), v.clone());
        }
        let opts = Opts::new(self.name.clone(), self.help.clone()).const_labels(cl);
        match self.kind {
            0 => {
                let c = Counter::with_opts(opts).unwrap();
                c.inc();
                Box::new(c)
            }
            1 => {
                let g = Gauge::with_opts(opts).unwrap();
                g.set(2.0);
                Box::new(g)
            }
            2 => {
                let h = Histogram::with_opts(HistogramOpts::from(opts)).unwrap();
                h.observe(0.3);
                Box::new(h)
            }
            _ => {
                let names: Vec<&str> = self.vars.iter().map(|s| s.as_str()).collect();
                let v = CounterVec::new(opts, &names).unwrap();
                let vals: Vec<&str> = names.iter().map(|_| "x").collect();
                v.with_label_values(&vals).inc();
                Box::new(v)
            }
        }
    }
}

struct Multi {
    inner: Vec<Box<dyn Collector>>,
}

impl Collector for Multi {
    fn desc(&self) -> Vec<&Desc> {
        self.inner.iter().flat_map(|c| c.desc()).collect()
    }
    fn collect(&self) -> Vec<MetricFamily> {
        self.inner.iter().flat_map(|c| c.collect()).collect()
    }
}

#[derive(Clone, Debug)]
struct Template {
    parts: Vec<Spec>,
}

impl Template {
    fn build(&self) -> Box<dyn Collector> {
        if self.parts.len() == 1 {
            return self.parts[0].build();
        }
        Box::new(Multi { inner: self.parts.iter().map(|p| p.build()).collect() })
    }
    fn key_set(&self) -> BTreeSet<Key> {
        self.parts.iter().map(|p| p.key()).collect()
    }
    fn self_inconsistent(&self) -> bool {
        if self.key_set().len() != self.parts.len() {
            return true;
        }
        self.parts.iter().any(|a| self.parts.iter().any(|b| a.name == b.name && a.dims() != b.dims()))
    }
    fn describe(&self) -> String {
        self.parts.iter().map(|p| format!("{}{{{}}}[{}] help={:?}", p.name, p.consts.iter().map(|c| format!("{}={}", c.0, c.1)).collect::<Vec<_>>().join(","), p.vars.join(","), p.help)).collect::<Vec<_>>().join(" + ")
    }
}

fn gen_spec(rng: &mut Rng, names: u64) -> Spec {
    let name = format!("n{}", 1 + rng.below(names));
    let help = format!("help {} {}", name, if rng.chance(1, 5) { 1 } else { 0 });
    let consts = match rng.below(5) {
        0 => vec![],
        1 => vec![("a".to_string(), "1".to_string())],
        2 => vec![("a".to_string(), "2".to_string())],
        3 => vec![("a".to_string(), "1".to_string()), ("b".to_string(), "2".to_string())],
        _ => vec![("b".to_string(), "1".to_string())],
    };
    // one metric type per name (mixed kinds under one name are C14's subject)
    let kind: u8 = match name[1..].parse::<u64>().unwrap_or(0) % 3 {
        1 => {
            if rng.chance(1, 2) {
                3
            } else {
                0
            }
        }
        2 => 1,
        _ => 2,
    };
    let vars = if kind == 3 { vec!["v".to_string()] } else { vec![] };
    Spec { name, help, consts, vars, kind }
}

#[derive(Clone, Debug)]
enum Op {
    Reg(usize),
    Unreg(usize),
    Gather,
}

#[derive(Clone, Debug, PartialEq, Eq)]
enum Out {
    Ok,
    AlreadyReg,
    Err,
}

#[derive(Clone, Debug)]
enum Rec {
    Reg { t: usize, out: Out },
    Unreg { t: usize, ok: bool },
    Gathered { keys: BTreeSet<Key>, malformed: Option<String> },
}

#[derive(Clone, PartialEq, Eq, Hash, Default)]
struct St {
    registered: BTreeSet<BTreeSet<Key>>,
    dims: BTreeMap<String, Dims>,
}

struct RegModel<'a> {
    templates: &'a [Template],
}

impl Model for RegModel<'_> {
    type State = St;
    type Op = Rec;
    fn init(&self) -> St {
        St::default()
    }
    fn step(&self, st: &St, op: &Rec) -> Option<St> {
        match op {
            Rec::Reg { t, out } => {
                let tpl = &self.templates[*t];
                let ks = tpl.key_set();
                let equal_desc = ks.iter().any(|k| st.registered.iter().any(|r| r.contains(k)));
                let same_collector = st.registered.contains(&ks);
                let dim_conflict = tpl.parts.iter().any(|p| st.dims.get(&p.name).map(|d| *d != p.dims()).unwrap_or(false));
                if !(equal_desc || same_collector || dim_conflict) {
                    if *out != Out::Ok {
                        return None;
                    }
                    let mut n = st.clone();
                    n.registered.insert(ks);
                    for p in &tpl.parts {
                        n.dims.insert(p.name.clone(), p.dims());
                    }
                    Some(n)
                } else if !dim_conflict {
                    if *out == Out::AlreadyReg {
                        Some(st.clone())
                    } else {
                        None
                    }
                } else if *out == Out::Ok {
                    None
                } else {
                    Some(st.clone())
                }
            }
            Rec::Unreg { t, ok } => {
                let ks = self.templates[*t].key_set();
                let present = st.registered.contains(&ks);
                if present != *ok {
                    return None;
                }
                let mut n = st.clone();
                n.registered.remove(&ks);
                Some(n)
            }
            // the set of descriptors a gather shows is the registered set at one moment of the call
            Rec::Gathered { keys, .. } => {
                let exported: BTreeSet<&Key> = st.registered.iter().flat_map(|r| r.iter()).collect();
                if exported.len() == keys.len() && keys.iter().all(|k| exported.contains(k)) {
                    Some(st.clone())
                } else {
                    None
                }
            }
        }
    }
}

fn gathered_keys(mfs: &[MetricFamily]) -> (BTreeSet<Key>, Option<String>) {
    let mut keys = BTreeSet::new();
    let mut bad = None;
    let mut prev: Option<String> = None;
    for mf in mfs {
        if let Some(p) = &prev {
            if p.as_str() >= mf.name() {
                bad = Some(format!("family {:?} follows {:?}", mf.name(), p));
            }
        }
        prev = Some(mf.name().to_string());
        if mf.name() == "bystander" {
            continue;
        }
        let mut seen = BTreeSet::new();
        for m in mf.get_metric() {
            let mut labels: Vec<(String, String)> = m.get_label().iter().map(|l| (l.name().to_string(), l.value().to_string())).collect();
            labels.sort();
            if !seen.insert(labels.clone()) {
                bad = Some(format!("family {:?} holds the sample {:?} twice", mf.name(), labels));
            }
            let consts: Vec<String> = labels.into_iter().filter(|l| l.0 != "v").map(|l| l.1).collect();
            keys.insert((mf.name().to_string(), consts));
        }
    }
    (keys, bad)
}

fn run_case(job: &Job, case: u64, part: &mut Part) {
    let mut rng = Rng::derive(job.seed, case.wrapping_mul(2).wrapping_add(0xC06C));
    let names = 1 + rng.below(2);
    let mut templates: Vec<Template> = Vec::new();
    let want = 4 + rng.usize_below(4);
    let mut guard = 0;
    while templates.len() < want && guard < 100 {
        guard += 1;
        let nparts = if rng.chance(1, 3) { 2 } else { 1 };
        let t = Template { parts: (0..nparts).map(|_| gen_spec(&mut rng, names)).collect() };
        if !t.self_inconsistent() {
            templates.push(t);
        }
    }
    let nthreads = 3 + rng.usize_below(2);
    let per = 5 + rng.usize_below(3);
    let plans: Vec<Vec<Op>> = (0..nthreads)
        .map(|_| {
            (0..per)
                .map(|_| match rng.below(10) {
                    0..=4 => Op::Reg(rng.usize_below(templates.len())),
                    5..=7 => Op::Unreg(rng.usize_below(templates.len())),
                    _ => Op::Gather,
                })
                .collect()
        })
        .collect();
    let jitter: Vec<Vec<u32>> = (0..nthreads).map(|_| (0..per).map(|_| if rng.chance(1, 2) { 0 } else { rng.below(400) as u32 }).collect()).collect();
    let reg = Registry::new();
    // half of the cases keep a bystander registered whose collection takes a while (a vector with
    // many children): it is never touched by the history, it only stretches every gather
    let bystander = case % 4 >= 2;
    if bystander {
        let v = CounterVec::new(Opts::new("bystander", "help"), &["v"]).unwrap();
        // (kept tiny under the interpreter, where the engine is `native`)
        let many = 20 + rng.below(200);
        for i in 0..(if matches!(job.engine, Engine::Native) { 3 } else { many }) {
            v.with_label_values(&[&format!("child{}", i)]).inc();
        }
        reg.register(Box::new(v)).unwrap();
    }
    // odd cases run free (no alignment, collectors built beforehand, calls back to back): several
    // calls of other threads then fall into one gather
    let free_running = case % 2 == 1;
    let sinks: Sinks<Rec> = Sinks::new(nthreads + 1);
    let arrived = AtomicUsize::new(0);
    let cfg = job.run_cfg(case, false);
    let do_op = |tid: usize, op: &Op, prebuilt: Option<Box<dyn Collector>>| match op {
        Op::Reg(t) => {
            let c = prebuilt.unwrap_or_else(|| templates[*t].build());
            let _ = sinks.call(
                tid,
                || reg.register(c),
                |r| Rec::Reg {
                    t: *t,
                    out: match r {
                        Ok(()) => Out::Ok,
                        Err(Error::AlreadyReg) => Out::AlreadyReg,
                        Err(_) => Out::Err,
                    },
                },
            );
        }
        Op::Unreg(t) => {
            let c = prebuilt.unwrap_or_else(|| templates[*t].build());
            let _ = sinks.call(tid, || reg.unregister(c), |r| Rec::Unreg { t: *t, ok: r.is_ok() });
        }
        Op::Gather => {
            sinks.call(
                tid,
                || reg.gather(),
                |mfs| {
                    let (keys, malformed) = gathered_keys(mfs);
                    Rec::Gathered { keys, malformed }
                },
            );
        }
    };
    let built: Vec<std::sync::Mutex<Vec<Option<Box<dyn Collector>>>>> = plans
        .iter()
        .map(|p| {
            std::sync::Mutex::new(
                p.iter()
                    .map(|op| match op {
                        Op::Reg(t) | Op::Unreg(t) => Some(templates[*t].build()),
                        Op::Gather => None,
                    })
                    .collect(),
            )
        })
        .collect();
    let outcome = run_threads(&cfg, nthreads, &|tid| {
        let mut mine: Vec<Option<Box<dyn Collector>>> = std::mem::take(&mut *built[tid].lock().unwrap());
        for (i, op) in plans[tid].iter().enumerate() {
            if !free_running || i == 0 {
                // align the threads before the operation, then a small random offset
                arrived.fetch_add(1, Ordering::SeqCst);
                let mut spins = 0u32;
                while arrived.load(Ordering::SeqCst) < nthreads * (i + 1) {
                    spins += 1;
                    if spins % 256 == 0 {
                        std::thread::yield_now();
                    }
                    std::hint::spin_loop();
                }
            }
            for _ in 0..jitter[tid][i] {
                std::hint::spin_loop();
            }
            do_op(tid, op, mine[i].take());
        }
    });
    account_outcome(part, job, case, &outcome, "registry register/unregister/gather");
    // closing sequential probe: what did the concurrent phase leave behind?
    do_op(nthreads, &Op::Gather, None);
    for t in 0..templates.len() {
        do_op(nthreads, &Op::Reg(t), None);
        do_op(nthreads, &Op::Gather, None);
        do_op(nthreads, &Op::Unreg(t), None);
    }
    do_op(nthreads, &Op::Gather, None);
    let hist = sinks.into_history();
    part.evaluations += 1;
    part.count("registry_operations", hist.len() as u64);
    let overlapping = hist.iter().enumerate().filter(|(i, a)| hist.iter().enumerate().any(|(j, b)| *i != j && a.call < b.ret && b.call < a.ret)).count();
    part.count("registry_operations_overlapping_another", overlapping as u64);
    let mut h = Fnv::new();
    for r in &hist {
        h.u64(r.tid as u64);
        h.str(&format!("{:?}", r.op));
        h.u64(hist.iter().filter(|o| o.ret < r.call).count() as u64);
    }
    part.distinct.insert(h.finish());
    let describe = |templates: &[Template]| Json::Arr(templates.iter().map(|t| Json::Str(t.describe())).collect());
    let hist_json = |hist: &[crate::common::Rec<Rec>]| Json::Arr(hist.iter().map(|r| jobj! {"thread" => r.tid, "call" => r.call, "ret" => r.ret, "op" => format!("{:?}", r.op)}).collect());
    // 1) admission outcomes are linearizable against the statement's rule
    let entries: Vec<Entry<Rec>> = hist.iter().map(|r| Entry { op: r.op.clone(), call: r.call, ret: r.ret }).collect();
    if entries.len() <= 64 {
        match wgl::check(&RegModel { templates: &templates }, &entries, 3_000_000) {
            Verdict::Linearizable(_) => part.count("admission_histories_explained", 1),
            Verdict::Inconclusive => part.count("admission_histories_search_budget_exhausted", 1),
            Verdict::NotLinearizable(best) => {
                let stuck = best.len();
                violation(
                    part,
                    job,
                    case,
                    "registry-history-has-no-sequential-explanation",
                    "registry::register/unregister",
                    format!("no order of the {} register/unregister/gather calls that respects real time is accepted by the admission rule with every gather showing the descriptors registered at its place in the order (longest explained prefix: {} calls)", entries.len(), stuck),
                    jobj! {"templates" => describe(&templates), "history" => hist_json(&hist)},
                );
            }
        }
    }
    // 2) gathers: definite presence / absence per descriptor
    let succ_reg: Vec<(&crate::common::Rec<Rec>, BTreeSet<Key>)> = hist.iter().filter_map(|r| if let Rec::Reg { t, out: Out::Ok } = &r.op { Some((r, templates[*t].key_set())) } else { None }).collect();
    let succ_unreg: Vec<(&crate::common::Rec<Rec>, BTreeSet<Key>)> = hist.iter().filter_map(|r| if let Rec::Unreg { t, ok: true } = &r.op { Some((r, templates[*t].key_set())) } else { None }).collect();
    let all_keys: BTreeSet<Key> = templates.iter().flat_map(|t| t.key_set()).collect();
    for g in &hist {
        let (keys, malformed) = match &g.op {
            Rec::Gathered { keys, malformed } => (keys, malformed),
            _ => continue,
        };
        part.count("gathers_judged", 1);
        if let Some(m) = malformed {
            violation(part, job, case, "concurrent-gather-malformed", "registry::gather", m.clone(), jobj! {"templates" => describe(&templates), "history" => hist_json(&hist)});
        }
        for k in &all_keys {
            // latest successful registration of k that completed before the gather began
            let r = succ_reg.iter().filter(|(r, ks)| ks.contains(k) && r.ret < g.call).max_by_key(|(r, _)| r.call);
            let definitely_present = match r {
                None => false,
                Some((r, _)) => !succ_unreg.iter().any(|(u, ks)| ks.contains(k) && u.ret > r.call && u.call < g.ret) && !succ_reg.iter().any(|(r2, ks)| ks.contains(k) && r2.call > r.call && r2.call < g.ret),
            };
            let any_reg_before_end = succ_reg.iter().any(|(r, ks)| ks.contains(k) && r.call < g.ret);
            let definitely_absent = !any_reg_before_end
                || succ_unreg.iter().any(|(u, ks)| ks.contains(k) && u.ret < g.call && !succ_reg.iter().any(|(r, ks2)| ks2.contains(k) && r.ret > u.call && r.call < g.ret));
            if definitely_present && !keys.contains(k) {
                violation(
                    part,
                    job,
                    case,
                    "registered-collector-missing-from-gather",
                    "registry::gather",
                    format!("descriptor {:?} was registered before the gather began and nothing unregistered it until the gather returned, but the gather shows no sample of it", k),
                    jobj! {"templates" => describe(&templates), "history" => hist_json(&hist), "gather_call" => g.call},
                );
            }
            if definitely_absent && keys.contains(k) {
                violation(
                    part,
                    job,
                    case,
                    "unregistered-collector-in-gather",
                    "registry::gather",
                    format!("descriptor {:?} was not registered at any moment of the gather, but the gather shows a sample of it", k),
                    jobj! {"templates" => describe(&templates), "history" => hist_json(&hist), "gather_call" => g.call},
                );
            }
            if definitely_present || definitely_absent {
                part.count("descriptor_presence_judgements", 1);
            }
        }
        for k in keys {
            if !all_keys.contains(k) {
                violation(part, job, case, "gather-shows-unknown-sample", "registry::gather", format!("sample {:?} belongs to no template", k), jobj! {"templates" => describe(&templates), "history" => hist_json(&hist)});
            }
        }
    }
}

pub fn run(job: &Job, part: &mut Part) {
    match job.engine {
        Engine::E2 => {
            part.inconclusive = Some("the registry's lock is not routed through the sync shim: this workload runs on real threads only".into());
        }
        // the Miri stage asks for a number of cases (no clock under isolation)
        Engine::Native => {
            for case in job.first_case..job.first_case + job.cases {
                run_case(job, case, part);
            }
        }
        _ => {
            let start = std::time::Instant::now();
            let mut case = job.first_case;
            while start.elapsed().as_secs_f64() < job.secs {
                for _ in 0..50 {
                    run_case(job, case, part);
                    case += 1;
                }
            }
        }
    }
}
