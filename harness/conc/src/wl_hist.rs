//! C02 / C03 — histogram snapshots are consistent cuts; observations are conserved
//! across collects and flushes; a collect returns once in-flight observers finished.
//!
//! Observation j has the value 4^j, so `sample_sum` decodes to the exact set S
//! of observations a snapshot contains; bucket bounds sit on digit magnitudes so
//! `sample_count` and every cumulative bucket are determined by S as well.
use std::sync::Mutex;

use prometheus::core::{Collector, Metric};
use prometheus::{Histogram, HistogramOpts, HistogramVec, Registry};
use vcore::digits::{decode_f64, mask_to_vec, unit_f64};
use vcore::jobj;
use vcore::json::Json;
use vcore::prng::Rng;
use vcore::report::Part;

use crate::common::{account_outcome, violation, Job, Rec, Sinks};
use crate::sched::{run_threads, Abort, Engine};

#[derive(Clone, Copy, Debug, PartialEq, Eq)]
pub enum Via {
    Metric,
    Collect,
    VecCollect,
    Gather,
}

#[derive(Clone, Debug)]
pub enum HOp {
    Observe(usize),
    /// local histogram: observe each digit locally, then flush (or drop, which flushes)
    /// (`cloned`: a clone of the local handle is taken while the batch is pending and dropped at once;
    /// a clone starts empty, so nothing may reach the histogram through it)
    Batch { digits: Vec<usize>, by_drop: bool, cloned: bool },
    Snap(Via),
    GetCount,
    GetSum,
}

#[derive(Clone, Debug)]
pub struct Scenario {
    pub in_vec: bool,
    /// bucket bounds (finite, strictly increasing)
    pub bounds: Vec<f64>,
    pub threads: Vec<Vec<HOp>>,
}

#[derive(Clone, Debug)]
pub struct Snapshot {
    pub sum: f64,
    pub count: u64,
    pub buckets: Vec<(f64, u64)>,
    pub samples: usize,
}

#[derive(Clone, Debug)]
pub enum HRec {
    Obs { mask: u64, batch: bool },
    Snap { snap: Snapshot, via: Via },
    Count(u64),
    Sum(f64),
}

struct World {
    standalone: Option<Histogram>,
    vec: Option<HistogramVec>,
    registry: Registry,
    bounds: Vec<f64>,
}

const NAME: &str = "c02_hist";

impl World {
    fn new(sc: &Scenario) -> World {
        let opts = HistogramOpts::new(NAME, "histogram under test").buckets(sc.bounds.clone());
        let registry = Registry::new();
        if sc.in_vec {
            let v = HistogramVec::new(opts, &["l"]).unwrap();
            registry.register(Box::new(v.clone())).unwrap();
            World { standalone: None, vec: Some(v), registry, bounds: sc.bounds.clone() }
        } else {
            let h = Histogram::with_opts(opts).unwrap();
            registry.register(Box::new(h.clone())).unwrap();
            World { standalone: Some(h), vec: None, registry, bounds: sc.bounds.clone() }
        }
    }
    fn handle(&self) -> Histogram {
        match (&self.standalone, &self.vec) {
            (Some(h), _) => h.clone(),
            (_, Some(v)) => v.with_label_values(&["x"]),
            _ => unreachable!(),
        }
    }
    fn snap_of_metric(&self, m: &prometheus::proto::Metric) -> Snapshot {
        let h = m.get_histogram();
        Snapshot {
            sum: h.get_sample_sum(),
            count: h.get_sample_count(),
            buckets: h.get_bucket().iter().map(|b| (b.upper_bound(), b.cumulative_count())).collect(),
            samples: 1,
        }
    }
    fn snap_of_families(&self, mfs: &[prometheus::proto::MetricFamily]) -> Snapshot {
        let mut found = Vec::new();
        for mf in mfs {
            if mf.name() == NAME {
                for m in mf.get_metric() {
                    found.push(self.snap_of_metric(m));
                }
            }
        }
        match found.len() {
            // nothing exported yet (vector child not created): the empty set
            0 => Snapshot { sum: 0.0, count: 0, buckets: self.bounds.iter().map(|b| (*b, 0)).collect(), samples: 0 },
            1 => found.pop().unwrap(),
            n => {
                let mut s = found.pop().unwrap();
                s.samples = n;
                s
            }
        }
    }
    fn snapshot(&self, via: Via) -> Snapshot {
        match via {
            Via::Metric => self.snap_of_metric(&self.handle().metric()),
            Via::Collect => match &self.standalone {
                Some(h) => self.snap_of_families(&h.collect()),
                None => self.snap_of_families(&self.handle().collect()),
            },
            Via::VecCollect => match &self.vec {
                Some(v) => self.snap_of_families(&v.collect()),
                None => self.snap_of_families(&self.handle().collect()),
            },
            Via::Gather => self.snap_of_families(&self.registry.gather()),
        }
    }
}

pub fn generate(rng: &mut Rng, job: &Job, min_snaps: usize) -> Scenario {
    let small = job.engine == Engine::Native;
    let in_vec = rng.chance(1, 3);
    let observers = 1 + rng.usize_below(if small { 2 } else { 3 });
    let collectors = 1 + rng.usize_below(2);
    let mut threads: Vec<Vec<HOp>> = Vec::new();
    let mut next = 0usize;
    let max_digits = if small { 8 } else { 22 };
    for _ in 0..observers {
        let nops = 1 + rng.usize_below(if small { 2 } else { 4 });
        let mut ops = Vec::new();
        for _ in 0..nops {
            if next >= max_digits {
                break;
            }
            match rng.below(10) {
                0 | 1 if next + 3 < max_digits => {
                    let k = 2 + rng.usize_below(2);
                    ops.push(HOp::Batch { digits: (next..next + k).collect(), by_drop: rng.chance(1, 3), cloned: rng.chance(1, 3) });
                    next += k;
                }
                2 => ops.push(HOp::GetCount),
                3 if rng.chance(1, 2) => ops.push(HOp::GetSum),
                _ => {
                    ops.push(HOp::Observe(next));
                    next += 1;
                }
            }
        }
        if ops.is_empty() {
            ops.push(HOp::GetCount);
        }
        threads.push(ops);
    }
    let per_collector = std::cmp::max(1, (min_snaps + collectors - 1) / collectors);
    for _ in 0..collectors {
        let n = per_collector + rng.usize_below(if small { 1 } else { 3 });
        let mut ops = Vec::new();
        for _ in 0..n {
            let via = match rng.below(8) {
                0..=2 => Via::Metric,
                3 | 4 => Via::Collect,
                5 => Via::VecCollect,
                _ => Via::Gather,
            };
            ops.push(HOp::Snap(via));
            if rng.chance(1, 5) {
                ops.push(if rng.chance(1, 2) { HOp::GetSum } else { HOp::GetCount });
            }
            if rng.chance(1, 6) && next < max_digits {
                // a collector thread that also observes
                ops.push(HOp::Observe(next));
                next += 1;
            }
        }
        threads.push(ops);
    }
    // bucket bounds on digit magnitudes, sometimes half a unit off either way
    let nb = 1 + rng.usize_below(4);
    let mut pos: Vec<usize> = (0..std::cmp::max(next, 2)).collect();
    rng.shuffle(&mut pos);
    let mut pos: Vec<usize> = pos.into_iter().take(nb).collect();
    pos.sort();
    pos.dedup();
    let mut bounds: Vec<f64> = Vec::new();
    for p in pos {
        let base = unit_f64(p);
        let b = match rng.below(4) {
            0 => base + 0.5,
            1 if base > 1.0 => base - 0.5,
            _ => base,
        };
        if bounds.last().map(|l| b > *l).unwrap_or(true) {
            bounds.push(b);
        }
    }
    // one scenario in eight: 66 extra bounds below every observed value, so that all observations fall into
    // buckets with an index above 64 (size thresholds of bucket bookkeeping)
    if rng.chance(1, 8) {
        let mut padded: Vec<f64> = (1..=66).map(|i| i as f64 / 128.0).collect();
        padded.extend(bounds.into_iter().filter(|b| *b > 0.75));
        bounds = padded;
    }
    Scenario { in_vec, bounds, threads }
}

fn via_name(v: Via) -> &'static str {
    match v {
        Via::Metric => "metric",
        Via::Collect => "collect",
        Via::VecCollect => "vec-collect",
        Via::Gather => "gather",
    }
}

pub fn history_json(h: &[Rec<HRec>]) -> Json {
    Json::Arr(
        h.iter()
            .map(|r| {
                let what = match &r.op {
                    HRec::Obs { mask, batch } => format!("{} digits {:?}", if *batch { "flush" } else { "observe" }, mask_to_vec(*mask)),
                    HRec::Snap { snap, via } => format!(
                        "snapshot[{}] sum={:?} digits={:?} count={} buckets={:?}",
                        via_name(*via),
                        snap.sum,
                        decode_f64(snap.sum).map(|d| d.set()),
                        snap.count,
                        snap.buckets
                    ),
                    HRec::Count(c) => format!("get_sample_count = {}", c),
                    HRec::Sum(s) => format!("get_sample_sum = {:?} digits={:?}", s, decode_f64(*s).map(|d| d.set())),
                };
                Json::Str(format!("t{} [{}..{}] {}", r.tid, r.call, r.ret, what))
            })
            .collect(),
    )
}

pub fn scenario_json(sc: &Scenario) -> Json {
    jobj! {
        "in_vec" => sc.in_vec,
        "bounds" => sc.bounds.clone(),
        "threads" => Json::Arr(sc.threads.iter().map(|ops| Json::Arr(ops.iter().map(|o| Json::Str(format!("{:?}", o))).collect())).collect()),
    }
}

pub struct Execution {
    pub history: Vec<Rec<HRec>>,
    pub finals: Vec<Rec<HRec>>,
    pub outcome: crate::sched::Outcome,
    /// client operation each thread was executing when the run was aborted
    pub stuck_in: Vec<Option<String>>,
    #[cfg(prometheus_verif)]
    pub layout: Option<crate::hb::Layout>,
    /// the layout hook named one memory word twice (instrumentation broken: nothing can be concluded)
    pub layout_broken: bool,
}

pub fn execute(sc: &Scenario, job: &Job, case: u64) -> Execution {
    let world = World::new(sc);
    let n = sc.threads.len();
    let sinks: Sinks<HRec> = Sinks::new(n);
    let current: Vec<Mutex<Option<String>>> = (0..n).map(|_| Mutex::new(None)).collect();
    let cfg = job.run_cfg(case, job.engine == Engine::E2);
    // the child must exist before its layout can be read; creating it up front is part of setup
    #[allow(unused_mut)]
    let mut layout_broken = false;
    #[cfg(prometheus_verif)]
    // (for a vector child this creates the child up front on every other case, which trades the creation race
    // for trace monitoring of that case)
    let layout = if job.engine == Engine::E2 && (!sc.in_vec || case % 2 == 0) {
        let l = world.handle().verif_layout();
        // the layout accessor is instrumentation: every cell it names must be a different word, otherwise
        // the trace monitors would be watching the wrong memory (inconclusive, never a verdict)
        let mut cells: Vec<usize> = vec![l.shard_and_count, l.collect_lock, l.shards[0].count, l.shards[1].count, l.shards[0].sum, l.shards[1].sum];
        cells.extend(l.shards[0].buckets.iter().cloned());
        cells.extend(l.shards[1].buckets.iter().cloned());
        let total = cells.len();
        cells.sort_unstable();
        cells.dedup();
        layout_broken = cells.len() != total;
        Some(crate::hb::Layout {
            shard_and_count: l.shard_and_count,
            collect_lock: l.collect_lock,
            count: [l.shards[0].count, l.shards[1].count],
            sum: [l.shards[0].sum, l.shards[1].sum],
            buckets: [l.shards[0].buckets.clone(), l.shards[1].buckets.clone()],
        })
    } else {
        None
    };
    let outcome = run_threads(&cfg, n, &|tid| {
        for op in &sc.threads[tid] {
            *current[tid].lock().unwrap() = Some(format!("{:?}", op));
            match op {
                HOp::Observe(j) => {
                    let v = unit_f64(*j);
                    sinks.call(tid, || world.handle().observe(v), |_| HRec::Obs { mask: 1 << *j, batch: false });
                }
                HOp::Batch { digits, by_drop, cloned } => {
                    let h = world.handle();
                    let l = h.local();
                    let mut mask = 0u64;
                    for j in digits {
                        l.observe(unit_f64(*j));
                        mask |= 1 << *j;
                    }
                    if *cloned {
                        let c = l.clone();
                        sinks.call(tid, move || drop(c), |_| HRec::Obs { mask: 0, batch: true });
                    }
                    if *by_drop {
                        sinks.call(tid, move || drop(l), |_| HRec::Obs { mask, batch: true });
                    } else {
                        sinks.call(tid, || l.flush(), |_| HRec::Obs { mask, batch: true });
                    }
                }
                HOp::Snap(via) => {
                    sinks.call(tid, || world.snapshot(*via), |s| HRec::Snap { snap: s.clone(), via: *via });
                }
                HOp::GetCount => {
                    sinks.call(tid, || world.handle().get_sample_count(), |c| HRec::Count(*c));
                }
                HOp::GetSum => {
                    sinks.call(tid, || world.handle().get_sample_sum(), |s| HRec::Sum(*s));
                }
            }
            *current[tid].lock().unwrap() = None;
        }
    });
    let history = sinks.into_history();
    let fin: Sinks<HRec> = Sinks::new(1);
    if outcome.abort.is_none() {
        fin.call(0, || world.snapshot(Via::Metric), |s| HRec::Snap { snap: s.clone(), via: Via::Metric });
        fin.call(0, || world.handle().get_sample_count(), |c| HRec::Count(*c));
        fin.call(0, || world.handle().get_sample_sum(), |s| HRec::Sum(*s));
        fin.call(0, || world.snapshot(Via::Gather), |s| HRec::Snap { snap: s.clone(), via: Via::Gather });
    }
    let stuck_in = current.into_iter().map(|m| m.into_inner().unwrap_or_else(|e| e.into_inner())).collect();
    Execution {
        history,
        finals: fin.into_history(),
        outcome,
        stuck_in,
        #[cfg(prometheus_verif)]
        layout,
        layout_broken,
    }
}

pub struct Finding {
    pub rule: String,
    pub site: String,
    pub explanation: String,
    /// which property's statement the rule belongs to
    pub c02: bool,
    pub c03: bool,
}

fn fnd(rule: &str, site: &str, explanation: String, c02: bool, c03: bool) -> Finding {
    Finding { rule: rule.into(), site: site.into(), explanation, c02, c03 }
}

/// Decode one snapshot into its observation set, checking internal consistency.
fn decode_snapshot(s: &Snapshot, bounds: &[f64], all_mask: u64, site: &str, out: &mut Vec<Finding>) -> Option<u64> {
    if s.samples > 1 {
        out.push(fnd("histogram-exported-twice", site, format!("{} samples for one histogram in one collection", s.samples), true, true));
        return None;
    }
    let d = match decode_f64(s.sum) {
        Some(d) => d,
        None => {
            out.push(fnd("snapshot-sum-not-a-set-of-observations", site, format!("sample_sum {:?} is not a sum of observed values", s.sum), true, true));
            return None;
        }
    };
    if let Some(j) = d.overflow() {
        out.push(fnd("observation-counted-more-than-once", site, format!("sample_sum {:?} contains observation 4^{} {} times", s.sum, j, d.digit(j)), true, true));
        return None;
    }
    let m = d.mask();
    if m & !all_mask != 0 {
        out.push(fnd("snapshot-contains-unknown-value", site, format!("sample_sum {:?} contains digits {:?} nobody observed", s.sum, mask_to_vec(m & !all_mask)), true, true));
        return None;
    }
    let set = mask_to_vec(m);
    if s.count != set.len() as u64 {
        out.push(fnd(
            "snapshot-count-disagrees-with-sum",
            site,
            format!("sample_count {} but sample_sum {:?} is the sum of {} observations {:?}", s.count, s.sum, set.len(), set),
            true, true));
    }
    if s.buckets.len() != bounds.len() {
        out.push(fnd("snapshot-bucket-list-wrong", site, format!("{} buckets exported, {} configured", s.buckets.len(), bounds.len()), true, true));
    } else {
        for (i, (ub, cum)) in s.buckets.iter().enumerate() {
            let expect = set.iter().filter(|j| unit_f64(**j) <= bounds[i]).count() as u64;
            if ub.to_bits() != bounds[i].to_bits() || *cum != expect {
                out.push(fnd(
                    "snapshot-bucket-disagrees-with-sum",
                    site,
                    format!("bucket le={:?} has cumulative count {} but the snapshot's observations {:?} put {} at or below {:?}", ub, cum, set, expect, bounds[i]),
                    true, true));
                break;
            }
        }
    }
    Some(m)
}

pub fn check(sc: &Scenario, ex: &Execution) -> Vec<Finding> {
    let mut out: Vec<Finding> = Vec::new();
    let site = if sc.in_vec { "vec-child" } else { "standalone" };
    let obs: Vec<&Rec<HRec>> = ex.history.iter().filter(|r| matches!(r.op, HRec::Obs { .. })).collect();
    let all_mask: u64 = obs
        .iter()
        .map(|r| match &r.op {
            HRec::Obs { mask, .. } => *mask,
            _ => 0,
        })
        .fold(0, |a, b| a | b);
    let total: u64 = all_mask.count_ones() as u64;
    // per snapshot
    let mut snaps: Vec<(&Rec<HRec>, u64)> = Vec::new();
    for r in ex.history.iter().chain(ex.finals.iter()) {
        let (snap, via) = match &r.op {
            HRec::Snap { snap, via } => (snap, via),
            _ => continue,
        };
        let s = format!("{}/{}", site, via_name(*via));
        let m = match decode_snapshot(snap, &sc.bounds, all_mask, &s, &mut out) {
            Some(m) => m,
            None => continue,
        };
        for o in &obs {
            let (mask, batch) = match &o.op {
                HRec::Obs { mask, batch } => (*mask, *batch),
                _ => unreachable!(),
            };
            if mask == 0 {
                continue; // the dropped (empty) clone: nothing to find
            }
            let got = m & mask;
            if got != 0 && got != mask {
                out.push(fnd("flushed-batch-torn-in-snapshot", &s, format!("snapshot contains {:?} of the batch {:?}", mask_to_vec(got), mask_to_vec(mask)), true, true));
                continue;
            }
            if o.ret < r.call && got == 0 {
                out.push(fnd(
                    "completed-observation-missing-from-snapshot",
                    &s,
                    format!("{} of {:?} returned at {}, the collection started at {} and does not contain it", if batch { "flush" } else { "observe" }, mask_to_vec(mask), o.ret, r.call),
                    true,
                    true,
                ));
            }
            if o.call > r.ret && got != 0 {
                out.push(fnd("snapshot-contains-later-observation", &s, format!("collection returned at {} contains {:?} observed from {}", r.ret, mask_to_vec(mask), o.call), true, true));
            }
        }
        // never a thread's later observation without its earlier ones
        let nthreads = sc.threads.len();
        for t in 0..nthreads {
            let mut missing_earlier: Option<u64> = None;
            for o in obs.iter().filter(|o| o.tid == t) {
                let mask = match &o.op {
                    HRec::Obs { mask, .. } => *mask,
                    _ => 0,
                };
                if mask == 0 {
                    continue;
                }
                if m & mask == 0 {
                    if missing_earlier.is_none() {
                        missing_earlier = Some(mask);
                    }
                } else if let Some(e) = missing_earlier {
                    out.push(fnd(
                        "snapshot-skips-earlier-observation-of-thread",
                        &s,
                        format!("snapshot contains thread {}'s observation {:?} but not its earlier {:?}", t, mask_to_vec(mask), mask_to_vec(e)),
                        true, true));
                    break;
                }
            }
        }
        snaps.push((r, m));
    }
    // snapshots describe growing sets (C03)
    for (r1, m1) in &snaps {
        for (r2, m2) in &snaps {
            if r1.ret < r2.call && m1 & !m2 != 0 {
                out.push(fnd(
                    "later-snapshot-lost-observations",
                    site,
                    format!("snapshot returned at {} contains {:?}; the snapshot started at {} lacks {:?}", r1.ret, mask_to_vec(*m1), r2.call, mask_to_vec(m1 & !m2)),
                    false,
                    true,
                ));
            } else if m1 & !m2 != 0 && m2 & !m1 != 0 {
                out.push(fnd("snapshots-not-nested", site, format!("two snapshots contain {:?} and {:?}: neither is a subset of the other", mask_to_vec(*m1), mask_to_vec(*m2)), false, true));
            }
        }
    }
    // get_sample_count / get_sample_sum while running
    for r in ex.history.iter() {
        match &r.op {
            HRec::Count(c) => {
                let lo: u64 = obs.iter().filter(|o| o.ret < r.call).map(|o| weight(o)).sum();
                let hi: u64 = obs.iter().filter(|o| o.call < r.ret).map(|o| weight(o)).sum();
                if *c < lo || *c > hi {
                    out.push(fnd("sample-count-out-of-range", site, format!("get_sample_count returned {} but {} observations had completed before the call and only {} had started before it returned", c, lo, hi), false, true));
                }
            }
            HRec::Sum(s) => check_sum_read(*s, r, &obs, all_mask, site, &mut out),
            _ => {}
        }
    }
    // after all threads finished
    if ex.outcome.abort.is_none() {
        let full_sum: f64 = mask_to_vec(all_mask).into_iter().map(unit_f64).fold(0.0, |a, b| a + b);
        for r in &ex.finals {
            match &r.op {
                HRec::Snap { snap, via } => {
                    if decode_f64(snap.sum).map(|d| d.mask()) != Some(all_mask) || snap.count != total {
                        out.push(fnd(
                            "final-snapshot-is-not-all-observations",
                            &format!("{}/{}", site, via_name(*via)),
                            format!("after all threads finished the snapshot has count {} sum {:?} (digits {:?}); {} observations {:?} were made", snap.count, snap.sum, decode_f64(snap.sum).map(|d| d.set()), total, mask_to_vec(all_mask)),
                            false,
                            true,
                        ));
                    }
                }
                HRec::Count(c) => {
                    if *c != total {
                        out.push(fnd("final-sample-count-wrong", site, format!("get_sample_count = {} after {} observations", c, total), false, true));
                    }
                }
                HRec::Sum(s) => {
                    if s.to_bits() != full_sum.to_bits() {
                        out.push(fnd("final-sample-sum-wrong", site, format!("get_sample_sum = {:?} after observations summing to {:?}", s, full_sum), false, true));
                    }
                }
                _ => {}
            }
        }
    }
    out
}

fn weight(o: &Rec<HRec>) -> u64 {
    match &o.op {
        HRec::Obs { mask, .. } => mask.count_ones() as u64,
        _ => 0,
    }
}

fn check_sum_read(s: f64, r: &Rec<HRec>, obs: &[&Rec<HRec>], all_mask: u64, site: &str, out: &mut Vec<Finding>) {
    let d = match decode_f64(s) {
        Some(d) if d.overflow().is_none() && d.mask() & !all_mask == 0 => d,
        _ => {
            out.push(fnd("sample-sum-not-a-set-of-observations", site, format!("get_sample_sum returned {:?}", s), false, true));
            return;
        }
    };
    let m = d.mask();
    for o in obs {
        let mask = match &o.op {
            HRec::Obs { mask, .. } => *mask,
            _ => 0,
        };
        if mask == 0 {
            continue;
        }
        let got = m & mask;
        if got != 0 && got != mask {
            out.push(fnd("sample-sum-tears-a-batch", site, format!("get_sample_sum contains {:?} of batch {:?}", mask_to_vec(got), mask_to_vec(mask)), false, true));
        } else if o.ret < r.call && got == 0 {
            out.push(fnd("sample-sum-misses-completed-observation", site, format!("get_sample_sum called at {} misses {:?} completed at {}", r.call, mask_to_vec(mask), o.ret), false, true));
        } else if o.call > r.ret && got != 0 {
            out.push(fnd("sample-sum-contains-later-observation", site, format!("get_sample_sum returned at {} contains {:?} observed from {}", r.ret, mask_to_vec(mask), o.call), false, true));
        }
    }
}

pub fn run_case(job: &Job, case: u64, part: &mut Part) {
    let is_c03 = job.property == "C03";
    let mut rng = Rng::derive(job.seed, case.wrapping_mul(2).wrapping_add(if is_c03 { 0xC03 } else { 0xC02 }));
    let min_snaps = if is_c03 { 3 + rng.usize_below(if job.thorough { 8 } else { 3 }) } else { 1 + rng.usize_below(3) };
    let sc = generate(&mut rng, job, min_snaps);
    let ex = execute(&sc, job, case);
    if ex.layout_broken {
        part.inconclusive = Some("the histogram layout hook names the same memory word twice: the trace monitors cannot be trusted".into());
        return;
    }
    part.evaluations += 1;
    account_outcome(part, job, case, &ex.outcome, "histogram");
    let detail = jobj! {"scenario" => scenario_json(&sc), "history" => history_json(&ex.history), "final" => history_json(&ex.finals)};
    if let Some(a) = &ex.outcome.abort {
        part.count("aborted_runs", 1);
        match a {
            Abort::QuiescentSpin { spinners } => {
                let stuck: Vec<String> = spinners.iter().filter_map(|t| ex.stuck_in.get(*t).cloned().flatten().map(|s| format!("t{} in {}", t, s))).collect();
                let collector_stuck = spinners.iter().any(|t| matches!(ex.stuck_in.get(*t), Some(Some(s)) if s.starts_with("Snap") || s.starts_with("GetSum")));
                if collector_stuck {
                    violation(
                        part,
                        job,
                        case,
                        "collect-never-returns",
                        "progress",
                        format!("for 10000 consecutive scheduler steps no shared word changed while every other thread had finished or was itself spinning; spinning threads: {:?}. The collect can never return.", stuck),
                        detail,
                    );
                } else {
                    part.inconclusive = Some(format!("case {}: quiescent spin outside a collect: {:?}", case, stuck));
                }
            }
            Abort::StepBudget => {
                part.inconclusive = Some(format!("case {} exceeded the step budget", case));
            }
        }
        return;
    }
    // window evidence from the client-boundary history
    let snaps_overlapping = ex
        .history
        .iter()
        .filter(|r| matches!(r.op, HRec::Snap { .. }))
        .filter(|r| ex.history.iter().any(|o| matches!(o.op, HRec::Obs { .. }) && o.call < r.ret && r.call < o.ret))
        .count() as u64;
    part.count("snapshots_overlapping_an_observation", snaps_overlapping);
    part.count("snapshots_checked", ex.history.iter().chain(ex.finals.iter()).filter(|r| matches!(r.op, HRec::Snap { .. })).count() as u64);
    part.count("history_operations", (ex.history.len() + ex.finals.len()) as u64);
    if job.engine != Engine::E2 {
        let mut h = vcore::prng::Fnv::new();
        for r in &ex.history {
            h.u64(r.tid as u64);
            h.u64(r.call);
            h.u64(r.ret);
            if let HRec::Snap { snap, .. } = &r.op {
                h.u64(snap.sum.to_bits());
            }
        }
        part.distinct.insert(h.finish());
    }
    let mut findings = check(&sc, &ex);
    #[cfg(prometheus_verif)]
    if let Some(lay) = &ex.layout {
        let (stats, hb_findings) = crate::hb::analyze(&ex.outcome.trace, lay, sc.threads.len());
        part.count("hb_obligations_checked", stats.hb_obligations_checked);
        part.count("trace_flips", stats.flips);
        part.count("observers_straddling_flip", stats.observers_straddling_flip);
        part.count("flips_with_inflight_observers", stats.flips_with_inflight_observers);
        part.count("collector_spin_iterations", stats.collector_spin_iterations);
        part.count("collectors_contending_for_lock", stats.collectors_contending_for_lock);
        part.count("trace_claims", stats.claims);
        part.count("trace_drains", stats.drains);
        part.count("traces_monitored", 1);
        for f in hb_findings {
            let progress = f.site == "progress";
            findings.push(Finding { rule: f.rule.to_string(), site: f.site, explanation: f.explanation, c02: !progress, c03: progress });
        }
    }
    part.sample(3, detail.clone());
    if job.verbose {
        println!("{}", detail.to_string());
    }
    for f in findings {
        let relevant = if is_c03 { f.c03 } else { f.c02 };
        let _ = (f.c02, f.c03);
        if relevant {
            violation(part, job, case, &f.rule, &f.site, f.explanation, detail.clone());
        } else {
            part.count("findings_belonging_to_the_sibling_property", 1);
        }
    }
}

/// E1 volume shape: four value classes whose per-class counts stay decodable from the sum.
fn run_volume(job: &Job, part: &mut Part, round: u64) {
    use std::sync::atomic::{AtomicBool, AtomicU64, Ordering};
    // classes 1, 2^13, 2^26, 2^39: at most 8191 observations per class keep the sum decodable
    let classes: [f64; 4] = [1.0, 8192.0, 67108864.0, 549755813888.0];
    let bounds = vec![1.0, 8192.0, 67108864.0]; // last class above all bounds
    let h = Histogram::with_opts(HistogramOpts::new("c02_volume", "h").buckets(bounds)).unwrap();
    let observers = 4usize;
    let per_class_per_thread = 2000u64; // 4 threads * 2000 = 8000 <= 8191
    let done = AtomicBool::new(false);
    let finished = AtomicU64::new(0);
    let snaps = AtomicU64::new(0);
    let bad: Mutex<Vec<String>> = Mutex::new(Vec::new());
    let mut cfg = job.run_cfg(round, false);
    cfg.spurious_den = 16;
    let out = run_threads(&cfg, observers + 2, &|tid| {
        if tid < observers {
            for i in 0..per_class_per_thread * 4 {
                h.observe(classes[((i + tid as u64) % 4) as usize]);
            }
            if finished.fetch_add(1, Ordering::SeqCst) + 1 == observers as u64 {
                done.store(true, Ordering::SeqCst);
            }
        } else {
            let mut last_count = 0u64;
            let mut n = 0u64;
            loop {
                let fin = done.load(Ordering::SeqCst);
                let m = h.metric();
                let hp = m.get_histogram();
                n += 1;
                let sum = hp.get_sample_sum();
                let count = hp.get_sample_count();
                let s = sum as u64;
                let per = [s & 8191, (s >> 13) & 8191, (s >> 26) & 8191, (s >> 39) & 8191];
                let cum: Vec<u64> = hp.get_bucket().iter().map(|b| b.cumulative_count()).collect();
                let ok = sum.fract() == 0.0 && per.iter().sum::<u64>() == count && cum.len() == 3 && cum[0] == per[0] && cum[1] == per[0] + per[1] && cum[2] == per[0] + per[1] + per[2] && count >= last_count;
                if !ok {
                    bad.lock().unwrap().push(format!("snapshot sum={:?} count={} buckets={:?} per-class={:?} previous count={}", sum, count, cum, per, last_count));
                    break;
                }
                last_count = count;
                if fin {
                    break;
                }
            }
            snaps.fetch_add(n, Ordering::SeqCst);
        }
    });
    account_outcome(part, job, round, &out, "volume");
    part.evaluations += 1;
    part.count("e1_volume_observations", observers as u64 * per_class_per_thread * 4);
    part.count("e1_volume_snapshots", snaps.load(Ordering::SeqCst));
    let total = observers as u64 * per_class_per_thread * 4;
    if h.get_sample_count() != total {
        violation(part, job, round, "volume-final-count-wrong", "volume", format!("{} observations, get_sample_count = {}", total, h.get_sample_count()), Json::Null);
    }
    for b in bad.into_inner().unwrap() {
        violation(part, job, round, "volume-snapshot-inconsistent", "volume", b, Json::Null);
    }
}

/// E1 volume shape with more than 2^16 observations: two value classes (1 and 2^26), so the sum still
/// decodes to the two per-class counts; observers also flush local batches.
fn run_volume_large(job: &Job, part: &mut Part, round: u64) {
    use std::sync::atomic::{AtomicBool, AtomicU64, Ordering};
    let big = 67108864.0f64; // 2^26
    let h = Histogram::with_opts(HistogramOpts::new("c02_volume_large", "h").buckets(vec![1.0])).unwrap();
    let observers = 4usize;
    let per_thread = if job.thorough { 60_000u64 } else { 20_000 }; // 4 * 20000 = 80000 > 65536
    let done = AtomicBool::new(false);
    let finished = AtomicU64::new(0);
    let snaps = AtomicU64::new(0);
    let bad: Mutex<Vec<String>> = Mutex::new(Vec::new());
    let mut cfg = job.run_cfg(round, false);
    cfg.spurious_den = 16;
    let out = run_threads(&cfg, observers + 2, &|tid| {
        if tid < observers {
            let local = h.local();
            for i in 0..per_thread {
                let v = if (i + tid as u64) % 2 == 0 { 1.0 } else { big };
                if tid % 2 == 0 {
                    h.observe(v);
                } else {
                    local.observe(v);
                    if i % 64 == 63 {
                        local.flush();
                    }
                }
            }
            local.flush();
            if finished.fetch_add(1, Ordering::SeqCst) + 1 == observers as u64 {
                done.store(true, Ordering::SeqCst);
            }
        } else {
            let mut last = 0u64;
            let mut n = 0u64;
            loop {
                let fin = done.load(Ordering::SeqCst);
                let m = h.metric();
                let hp = m.get_histogram();
                n += 1;
                let (sum, count) = (hp.get_sample_sum(), hp.get_sample_count());
                let s = sum as u64;
                let (ones, bigs) = (s & ((1 << 26) - 1), s >> 26);
                let cum = hp.get_bucket()[0].cumulative_count();
                if sum.fract() != 0.0 || ones + bigs != count || cum != ones || count < last {
                    bad.lock().unwrap().push(format!("snapshot sum={:?} count={} bucket(le=1)={} decoded ones={} bigs={} previous count={}", sum, count, cum, ones, bigs, last));
                    break;
                }
                last = count;
                if fin {
                    break;
                }
            }
            snaps.fetch_add(n, Ordering::SeqCst);
        }
    });
    account_outcome(part, job, round, &out, "volume-large");
    part.evaluations += 1;
    let total = observers as u64 * per_thread;
    part.count("e1_volume_large_observations", total);
    part.count("e1_volume_large_snapshots", snaps.load(Ordering::SeqCst));
    if h.get_sample_count() != total {
        violation(part, job, round, "volume-final-count-wrong", "volume-large", format!("{} observations, get_sample_count = {}", total, h.get_sample_count()), Json::Null);
    }
    for b in bad.into_inner().unwrap() {
        violation(part, job, round, "volume-snapshot-inconsistent", "volume-large", b, Json::Null);
    }
}

pub fn run(job: &Job, part: &mut Part) {
    match job.engine {
        Engine::E1 => {
            let start = std::time::Instant::now();
            let mut case = job.first_case;
            let mut round = 0;
            while start.elapsed().as_secs_f64() < job.secs {
                for _ in 0..100 {
                    run_case(job, case, part);
                    case += 1;
                }
                if round < 2 || job.thorough {
                    run_volume(job, part, round);
                }
                if round == 0 || (job.thorough && round % 4 == 0) {
                    run_volume_large(job, part, round);
                }
                round += 1;
            }
        }
        _ => {
            for case in job.first_case..job.first_case + job.cases {
                run_case(job, case, part);
            }
        }
    }
}
