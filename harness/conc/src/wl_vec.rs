//! C10 — concurrent use of a metric vector is linearizable.
//!
//! Model: a map from label values to children; every creation makes a fresh
//! child; a handle is bound for good to the child its get-or-create returned;
//! values live with the child and survive removal. Updates add unique powers of
//! four, so every value read reveals which handles feed the child it came from.
//! The search linearizes get-or-create / remove / reset / collect / read-handle;
//! a collection is atomic for the *structure* (which label values map to which
//! child) while each child's value is a windowed read (updates do not take the
//! vector's lock, so a collection cannot be atomic with respect to them).
use std::collections::HashMap;

use prometheus::core::{Collector, Metric};
use prometheus::{GaugeVec, Histogram, HistogramOpts, HistogramVec, IntCounter, IntCounterVec, Opts, Registry};
use vcore::digits::{decode_f64, decode_u64, mask_to_vec, unit_f64, unit_u64};
use vcore::jobj;
use vcore::json::Json;
use vcore::prng::Rng;
use vcore::report::Part;
use vcore::wgl::{self, Entry, Model, Verdict};

use crate::common::{account_outcome, violation, Job, Rec, Sinks};
use crate::sched::{run_threads, Engine};

#[derive(Clone, Copy, Debug, PartialEq, Eq)]
pub enum VKind {
    IntCounter,
    Gauge,
    Histogram,
}

const TUPLES: &[[&str; 2]] = &[["a", "b"], ["a", "c"], ["ab", ""]];
const LABELS: [&str; 2] = ["l1", "l2"];
/// label values of the one-label vectors (every third case): the same boundary shapes, one position
const TUPLES1: &[&str] = &["a", "ab", ""];

/// number of variable labels of the vector of this case (no PRNG draw: schedules stay aligned)
fn arity_of(case: u64) -> usize {
    if case % 3 == 2 {
        1
    } else {
        2
    }
}

fn tuple(arity: usize, lv: usize) -> Vec<&'static str> {
    if arity == 1 {
        vec![TUPLES1[lv]]
    } else {
        TUPLES[lv].to_vec()
    }
}
const NAME: &str = "c10_vec";

#[derive(Clone, Debug)]
pub enum VOp {
    /// get-or-create; the handle gets index `handle` (global numbering)
    Goc { lv: usize, map_form: bool, handle: usize },
    Upd { handle: usize, digit: usize },
    ReadH { handle: usize },
    Remove { lv: usize, map_form: bool },
    Reset,
    Collect { gather: bool },
}

#[derive(Clone, Debug)]
pub struct Scenario {
    pub kind: VKind,
    pub threads: Vec<Vec<VOp>>,
    pub handles: usize,
}

#[derive(Clone, Debug)]
pub enum VRec {
    Goc { lv: usize, handle: usize },
    Upd { handle: usize, digit: usize },
    /// mask None: value not decodable
    ReadH { handle: usize, mask: Option<u64>, raw: String },
    Remove { lv: usize, ok: bool },
    Reset,
    /// per exported sample: (label tuple index or None when labels are wrong, mask, raw)
    Collect { samples: Vec<(Option<usize>, Option<u64>, String)> },
}

enum AnyVec {
    C(IntCounterVec),
    G(GaugeVec),
    H(HistogramVec),
}

#[derive(Clone)]
enum AnyChild {
    C(IntCounter),
    G(prometheus::Gauge),
    H(Histogram),
}

fn f_mask(v: f64) -> Option<u64> {
    let d = decode_f64(v)?;
    if d.overflow().is_some() {
        return None;
    }
    Some(d.mask())
}

fn u_mask(v: u64) -> Option<u64> {
    let d = decode_u64(v);
    if d.overflow().is_some() {
        return None;
    }
    Some(d.mask())
}

impl AnyChild {
    fn upd(&self, digit: usize) {
        match self {
            AnyChild::C(c) => c.inc_by(unit_u64(digit)),
            AnyChild::G(g) => g.add(unit_f64(digit)),
            AnyChild::H(h) => h.observe(unit_f64(digit)),
        }
    }
    fn read(&self) -> (Option<u64>, String) {
        match self {
            AnyChild::C(c) => {
                let v = c.get();
                (u_mask(v), v.to_string())
            }
            AnyChild::G(g) => {
                let v = g.get();
                (f_mask(v), format!("{:?}", v))
            }
            AnyChild::H(h) => {
                let m = h.metric();
                let hp = m.get_histogram();
                let (s, c) = (hp.get_sample_sum(), hp.get_sample_count());
                let mask = f_mask(s).filter(|m| m.count_ones() as u64 == c);
                (mask, format!("sum={:?} count={}", s, c))
            }
        }
    }
}

impl AnyVec {
    fn goc(&self, arity: usize, lv: usize, map_form: bool) -> AnyChild {
        let t = tuple(arity, lv);
        if map_form {
            let mut m = HashMap::new();
            for i in (0..arity).rev() {
                m.insert(LABELS[i], t[i]);
            }
            match self {
                AnyVec::C(v) => AnyChild::C(v.get_metric_with(&m).unwrap()),
                AnyVec::G(v) => AnyChild::G(v.get_metric_with(&m).unwrap()),
                AnyVec::H(v) => AnyChild::H(v.get_metric_with(&m).unwrap()),
            }
        } else {
            match self {
                AnyVec::C(v) => AnyChild::C(v.with_label_values(&t)),
                AnyVec::G(v) => AnyChild::G(v.with_label_values(&t)),
                AnyVec::H(v) => AnyChild::H(v.with_label_values(&t)),
            }
        }
    }
    fn remove(&self, arity: usize, lv: usize, map_form: bool) -> bool {
        let t = tuple(arity, lv);
        if map_form {
            let mut m = HashMap::new();
            for i in 0..arity {
                m.insert(LABELS[i], t[i]);
            }
            match self {
                AnyVec::C(v) => v.remove(&m).is_ok(),
                AnyVec::G(v) => v.remove(&m).is_ok(),
                AnyVec::H(v) => v.remove(&m).is_ok(),
            }
        } else {
            match self {
                AnyVec::C(v) => v.remove_label_values(&t).is_ok(),
                AnyVec::G(v) => v.remove_label_values(&t).is_ok(),
                AnyVec::H(v) => v.remove_label_values(&t).is_ok(),
            }
        }
    }
    fn reset(&self) {
        match self {
            AnyVec::C(v) => v.reset(),
            AnyVec::G(v) => v.reset(),
            AnyVec::H(v) => v.reset(),
        }
    }
    fn collect(&self) -> Vec<prometheus::proto::MetricFamily> {
        match self {
            AnyVec::C(v) => v.collect(),
            AnyVec::G(v) => v.collect(),
            AnyVec::H(v) => v.collect(),
        }
    }
}

fn samples_of(arity: usize, kind: VKind, mfs: &[prometheus::proto::MetricFamily]) -> Vec<(Option<usize>, Option<u64>, String)> {
    let mut out = Vec::new();
    for mf in mfs {
        if mf.name() != NAME {
            continue;
        }
        for m in mf.get_metric() {
            // labels must be exactly k=v (const), l1, l2 in name order
            let ls: Vec<(&str, &str)> = m.get_label().iter().map(|l| (l.name(), l.value())).collect();
            let lv = if arity == 1 {
                if ls.len() == 2 && ls[0] == ("k", "v") && ls[1].0 == LABELS[0] {
                    TUPLES1.iter().position(|t| *t == ls[1].1)
                } else {
                    None
                }
            } else if ls.len() == 3 && ls[0] == ("k", "v") && ls[1].0 == LABELS[0] && ls[2].0 == LABELS[1] {
                TUPLES.iter().position(|t| t[0] == ls[1].1 && t[1] == ls[2].1)
            } else {
                None
            };
            let (mask, raw) = match kind {
                VKind::IntCounter => {
                    let v = m.get_counter().value();
                    (f_mask(v), format!("{:?}", v))
                }
                VKind::Gauge => {
                    let v = m.get_gauge().value();
                    (f_mask(v), format!("{:?}", v))
                }
                VKind::Histogram => {
                    let h = m.get_histogram();
                    let (s, c) = (h.get_sample_sum(), h.get_sample_count());
                    (f_mask(s).filter(|mm| mm.count_ones() as u64 == c), format!("sum={:?} count={}", s, c))
                }
            };
            out.push((lv, mask, format!("{:?} {}", ls, raw)));
        }
    }
    out
}

pub fn generate(rng: &mut Rng, job: &Job, sequential: bool) -> Scenario {
    let kind = match rng.below(4) {
        0 | 1 => VKind::IntCounter,
        2 => VKind::Gauge,
        _ => VKind::Histogram,
    };
    let small = job.engine == Engine::Native;
    let nthreads = if sequential { 1 } else { 2 + rng.usize_below(2) };
    let ntuples = 2 + rng.usize_below(2);
    let mut handles = 0usize;
    let mut digit = 0usize;
    let mut threads = Vec::new();
    let max_search_ops = if sequential { 56 } else { 14 };
    let mut search_ops = 0usize;
    for _ in 0..nthreads {
        let nops = if sequential { 30 + rng.usize_below(40) } else if small { 2 + rng.usize_below(2) } else { 3 + rng.usize_below(4) };
        let mut ops = Vec::new();
        let mut mine: Vec<usize> = Vec::new();
        for _ in 0..nops {
            let r = rng.below(100);
            let lv = rng.usize_below(ntuples);
            let map_form = rng.chance(1, 4);
            if (mine.is_empty() || r < 25) && search_ops < max_search_ops {
                ops.push(VOp::Goc { lv, map_form, handle: handles });
                mine.push(handles);
                handles += 1;
                search_ops += 1;
                // usually update right away: that is the "first requests race, update lost" window
                if digit < 24 && rng.chance(3, 4) {
                    ops.push(VOp::Upd { handle: *mine.last().unwrap(), digit });
                    digit += 1;
                }
            } else if r < 50 && digit < 24 && !mine.is_empty() {
                ops.push(VOp::Upd { handle: *rng.pick(&mine), digit });
                digit += 1;
            } else if search_ops >= max_search_ops {
                continue;
            } else if r < 60 && !mine.is_empty() {
                ops.push(VOp::ReadH { handle: *rng.pick(&mine) });
                search_ops += 1;
            } else if r < 75 {
                ops.push(VOp::Remove { lv, map_form });
                search_ops += 1;
            } else if r < 80 {
                ops.push(VOp::Reset);
                search_ops += 1;
            } else {
                ops.push(VOp::Collect { gather: rng.chance(1, 3) });
                search_ops += 1;
            }
        }
        threads.push(ops);
    }
    Scenario { kind, threads, handles }
}

#[derive(Clone, PartialEq, Eq, Hash, Debug)]
pub struct MState {
    map: [Option<u8>; 3],
    bind: Vec<Option<u8>>,
    next: u8,
}

struct VecModel<'a> {
    handles: usize,
    /// digit -> (handle, call, ret) of the update that carries it
    upd: &'a HashMap<usize, (usize, u64, u64)>,
}

#[derive(Clone, Debug)]
struct SearchOp {
    rec: VRec,
    call: u64,
}

impl VecModel<'_> {
    /// mask must contain exactly digits of updates through handles bound to `child`,
    /// and all of those that completed before `call`.
    fn value_ok(&self, st: &MState, child: u8, mask: u64, call: u64) -> bool {
        for j in mask_to_vec(mask) {
            match self.upd.get(&j) {
                Some((h, _, _)) if st.bind[*h] == Some(child) => {}
                _ => return false,
            }
        }
        for (j, (h, _c, r)) in self.upd.iter() {
            if *r < call && st.bind[*h] == Some(child) && mask >> j & 1 == 0 {
                return false;
            }
        }
        true
    }
}

impl Model for VecModel<'_> {
    type State = MState;
    type Op = SearchOp;
    fn init(&self) -> MState {
        MState { map: [None; 3], bind: vec![None; self.handles], next: 0 }
    }
    fn step(&self, st: &MState, op: &SearchOp) -> Option<MState> {
        let mut s = st.clone();
        match &op.rec {
            VRec::Goc { lv, handle } => {
                let child = match s.map[*lv] {
                    Some(c) => c,
                    None => {
                        let c = s.next;
                        s.next += 1;
                        s.map[*lv] = Some(c);
                        c
                    }
                };
                s.bind[*handle] = Some(child);
                Some(s)
            }
            VRec::Remove { lv, ok } => {
                if s.map[*lv].is_some() != *ok {
                    return None;
                }
                s.map[*lv] = None;
                Some(s)
            }
            VRec::Reset => {
                s.map = [None; 3];
                Some(s)
            }
            VRec::ReadH { handle, mask, .. } => {
                let child = s.bind[*handle]?;
                let mask = (*mask)?;
                if self.value_ok(&s, child, mask, op.call) {
                    Some(s)
                } else {
                    None
                }
            }
            VRec::Collect { samples } => {
                let mut seen = [false; 3];
                for (lv, mask, _) in samples {
                    let lv = (*lv)?;
                    let mask = (*mask)?;
                    if seen[lv] {
                        return None;
                    }
                    seen[lv] = true;
                    let child = s.map[lv]?;
                    if !self.value_ok(&s, child, mask, op.call) {
                        return None;
                    }
                }
                for lv in 0..3 {
                    if s.map[lv].is_some() && !seen[lv] {
                        return None;
                    }
                }
                Some(s)
            }
            VRec::Upd { .. } => Some(s),
        }
    }
}

pub fn history_json(arity: usize, h: &[Rec<VRec>]) -> Json {
    Json::Arr(
        h.iter()
            .map(|r| {
                let what = match &r.op {
                    VRec::Goc { lv, handle } => format!("h{} = get_or_create({:?})", handle, tuple(arity, *lv)),
                    VRec::Upd { handle, digit } => format!("h{} += 4^{}", handle, digit),
                    VRec::ReadH { handle, mask, raw } => format!("read h{} = {} digits {:?}", handle, raw, mask.map(mask_to_vec)),
                    VRec::Remove { lv, ok } => format!("remove({:?}) -> {}", tuple(arity, *lv), if *ok { "Ok" } else { "Err" }),
                    VRec::Reset => "reset()".into(),
                    VRec::Collect { samples } => format!(
                        "collect -> {:?}",
                        samples.iter().map(|(lv, m, raw)| format!("{:?}: {} digits {:?}", lv.map(|i| tuple(arity, i)), raw, m.map(mask_to_vec))).collect::<Vec<_>>()
                    ),
                };
                Json::Str(format!("t{} [{}..{}] {}", r.tid, r.call, r.ret, what))
            })
            .collect(),
    )
}

pub fn run_case(job: &Job, case: u64, part: &mut Part, sequential: bool) {
    let mut rng = Rng::derive(job.seed, case.wrapping_mul(2).wrapping_add(if sequential { 0x5C10 } else { 0xC10 }));
    let sc = generate(&mut rng, job, sequential);
    let registry = Registry::new();
    let arity = arity_of(case);
    part.count(if arity == 1 { "one_label_vector_cases" } else { "two_label_vector_cases" }, 1);
    let vec = match sc.kind {
        VKind::IntCounter => {
            let v = IntCounterVec::new(Opts::new(NAME, "h").const_label("k", "v"), &LABELS[..arity]).unwrap();
            registry.register(Box::new(v.clone())).unwrap();
            AnyVec::C(v)
        }
        VKind::Gauge => {
            let v = GaugeVec::new(Opts::new(NAME, "h").const_label("k", "v"), &LABELS[..arity]).unwrap();
            registry.register(Box::new(v.clone())).unwrap();
            AnyVec::G(v)
        }
        VKind::Histogram => {
            let v = HistogramVec::new(HistogramOpts::new(NAME, "h").const_label("k", "v"), &LABELS[..arity]).unwrap();
            registry.register(Box::new(v.clone())).unwrap();
            AnyVec::H(v)
        }
    };
    let n = sc.threads.len();
    let sinks: Sinks<VRec> = Sinks::new(n);
    let cfg = job.run_cfg(case, false);
    let kind = sc.kind;
    // handles live in a table indexed by the global handle number; each slot is written by one thread only
    let table: Vec<std::sync::Mutex<Option<AnyChild>>> = (0..sc.handles).map(|_| std::sync::Mutex::new(None)).collect();
    let out = run_threads(&cfg, n, &|tid| {
        for op in &sc.threads[tid] {
            match op {
                VOp::Goc { lv, map_form, handle } => {
                    let c = sinks.call(tid, || vec.goc(arity, *lv, *map_form), |_| VRec::Goc { lv: *lv, handle: *handle });
                    *table[*handle].lock().unwrap() = Some(c);
                }
                VOp::Upd { handle, digit } => {
                    let c = table[*handle].lock().unwrap().clone().unwrap();
                    sinks.call(tid, || c.upd(*digit), |_| VRec::Upd { handle: *handle, digit: *digit });
                }
                VOp::ReadH { handle } => {
                    let c = table[*handle].lock().unwrap().clone().unwrap();
                    sinks.call(tid, || c.read(), |r| VRec::ReadH { handle: *handle, mask: r.0, raw: r.1.clone() });
                }
                VOp::Remove { lv, map_form } => {
                    sinks.call(tid, || vec.remove(arity, *lv, *map_form), |ok| VRec::Remove { lv: *lv, ok: *ok });
                }
                VOp::Reset => {
                    sinks.call(tid, || vec.reset(), |_| VRec::Reset);
                }
                VOp::Collect { gather } => {
                    sinks.call(
                        tid,
                        || if *gather { samples_of(arity, kind, &registry.gather()) } else { samples_of(arity, kind, &vec.collect()) },
                        |s| VRec::Collect { samples: s.clone() },
                    );
                }
            }
        }
    });
    part.evaluations += 1;
    account_outcome(part, job, case, &out, "vector");
    if let Some(a) = &out.abort {
        part.count("aborted_runs", 1);
        part.inconclusive = Some(format!("case {} did not run to completion: {:?}", case, a));
        return;
    }
    let mut history = sinks.into_history();
    // final: collect + read every handle
    let fin: Sinks<VRec> = Sinks::new(1);
    fin.call(0, || samples_of(arity, kind, &vec.collect()), |s| VRec::Collect { samples: s.clone() });
    if !sequential {
        for h in 0..sc.handles {
            if let Some(c) = table[h].lock().unwrap().clone() {
                fin.call(0, || c.read(), |r| VRec::ReadH { handle: h, mask: r.0, raw: r.1.clone() });
            }
        }
    }
    history.extend(fin.into_history());
    let detail = jobj! {"kind" => format!("{:?}", sc.kind), "sequential" => sequential, "variable_labels" => arity as u64, "history" => history_json(arity, &history)};
    part.sample(3, detail.clone());
    if job.verbose {
        println!("{}", detail.to_string());
    }
    let site = format!("{:?}{}", sc.kind, if sequential { "/sequential" } else { "" });
    // direct checks
    let mut upd: HashMap<usize, (usize, u64, u64)> = HashMap::new();
    for r in &history {
        if let VRec::Upd { handle, digit } = &r.op {
            upd.insert(*digit, (*handle, r.call, r.ret));
        }
    }
    let mut direct_bad = false;
    for r in &history {
        match &r.op {
            VRec::Collect { samples } => {
                let mut seen = Vec::new();
                for (lv, mask, raw) in samples {
                    if lv.is_none() {
                        violation(part, job, case, "sample-labels-wrong", &site, format!("exported sample {} does not carry the declared label names with one of the requested tuples", raw), detail.clone());
                        direct_bad = true;
                    } else if seen.contains(lv) {
                        violation(part, job, case, "label-values-exported-twice", &site, format!("one collection shows {:?} twice", lv.map(|i| tuple(arity, i))), detail.clone());
                        direct_bad = true;
                    }
                    seen.push(*lv);
                    match mask {
                        None => {
                            violation(part, job, case, "value-not-a-set-of-updates", &site, format!("exported value {} is not a sum of distinct updates", raw), detail.clone());
                            direct_bad = true;
                        }
                        Some(m) => {
                            for j in mask_to_vec(*m) {
                                match upd.get(&j) {
                                    None => {
                                        violation(part, job, case, "value-contains-unknown-update", &site, format!("exported value {} contains 4^{} nobody added", raw, j), detail.clone());
                                        direct_bad = true;
                                    }
                                    Some((_, c, _)) if *c > r.ret => {
                                        violation(part, job, case, "value-contains-later-update", &site, format!("collection returned at {} contains update 4^{} issued at {}", r.ret, j, c), detail.clone());
                                        direct_bad = true;
                                    }
                                    _ => {}
                                }
                            }
                        }
                    }
                }
            }
            VRec::ReadH { mask: None, raw, handle } => {
                violation(part, job, case, "value-not-a-set-of-updates", &site, format!("handle {} reads {} which is not a sum of distinct updates", handle, raw), detail.clone());
                direct_bad = true;
            }
            _ => {}
        }
    }
    let entries: Vec<Entry<SearchOp>> = history
        .iter()
        .filter(|r| !matches!(r.op, VRec::Upd { .. }))
        .map(|r| Entry { op: SearchOp { rec: r.op.clone(), call: r.call }, call: r.call, ret: r.ret })
        .collect();
    part.count("search_operations", entries.len() as u64);
    part.count("history_operations", history.len() as u64);
    let creation_races = history
        .iter()
        .filter(|r| matches!(r.op, VRec::Goc { .. }))
        .filter(|r| history.iter().any(|o| o.tid != r.tid && matches!((&o.op, &r.op), (VRec::Goc { lv: a, .. }, VRec::Goc { lv: b, .. }) if a == b) && o.call < r.ret && r.call < o.ret))
        .count() as u64;
    part.count("overlapping_get_or_create_same_labels", creation_races);
    if job.engine != Engine::E2 || sequential {
        let mut h = vcore::prng::Fnv::new();
        h.u64(case);
        for r in &history {
            h.u64(r.tid as u64);
            h.u64(r.call);
        }
        part.distinct.insert(h.finish());
    }
    if direct_bad || entries.len() > 64 {
        return;
    }
    let model = VecModel { handles: sc.handles, upd: &upd };
    match wgl::check(&model, &entries, 4_000_000) {
        Verdict::Linearizable(_) => {}
        Verdict::Inconclusive => part.count("search_inconclusive", 1),
        Verdict::NotLinearizable(best) => {
            violation(
                part,
                job,
                case,
                "vector-history-not-linearizable",
                &site,
                format!(
                    "no order of get-or-create/remove/reset/collect/read consistent with real time is explained by a map from label values to children (longest explained prefix {} of {} operations)",
                    best.len(),
                    entries.len()
                ),
                detail,
            );
        }
    }
}

/// E1 shape with a large vector: more than a thousand children that stay, two threads that keep creating and
/// removing other children, two threads that keep collecting. Every collection must show each label tuple at
/// most once and must contain every child that was present throughout.
fn run_big(job: &Job, part: &mut Part, round: u64) {
    use std::collections::HashSet;
    use std::sync::atomic::{AtomicBool, AtomicU64, Ordering};
    let vec = IntCounterVec::new(Opts::new("c10_big", "h"), &LABELS).unwrap();
    let stable = 1100usize;
    for i in 0..stable {
        vec.with_label_values(&[format!("stable-{}", i).as_str(), "s"]).inc();
    }
    let done = AtomicBool::new(false);
    let collections = AtomicU64::new(0);
    let bad: std::sync::Mutex<Vec<(String, String)>> = std::sync::Mutex::new(Vec::new());
    let churn_rounds = if job.thorough { 6000u64 } else { 400 };
    let finished = AtomicU64::new(0);
    let cfg = job.run_cfg(round, false);
    // two threads that create and remove children, ONE thread that collects (with pauses): the shim acquires
    // locks with an unfair try-lock loop, several back-to-back readers would starve the writers
    let out = run_threads(&cfg, 3, &|tid| {
        if tid < 2 {
            for k in 0..churn_rounds {
                let a = format!("churn-{}-{}", tid, k % 7);
                vec.with_label_values(&[a.as_str(), "c"]).inc();
                let _ = vec.remove_label_values(&[a.as_str(), "c"]);
            }
            if finished.fetch_add(1, Ordering::SeqCst) == 1 {
                done.store(true, Ordering::SeqCst);
            }
        } else {
            loop {
                let fin = done.load(Ordering::SeqCst);
                let mfs = vec.collect();
                collections.fetch_add(1, Ordering::SeqCst);
                let mut seen: HashSet<(String, String)> = HashSet::new();
                let mut stable_seen = 0usize;
                for m in mfs[0].get_metric() {
                    let l = m.get_label();
                    let t = (l[0].value().to_string(), l[1].value().to_string());
                    if t.0.starts_with("stable-") {
                        stable_seen += 1;
                    }
                    if !seen.insert(t.clone()) {
                        bad.lock().unwrap().push(("label-values-exported-twice".into(), format!("one collection of a vector with {} children shows {:?} twice", mfs[0].get_metric().len(), t)));
                        return;
                    }
                }
                if stable_seen != stable {
                    bad.lock().unwrap().push(("present-child-missing-from-collection".into(), format!("a collection contains {} of the {} children that were present throughout", stable_seen, stable)));
                    return;
                }
                if fin {
                    break;
                }
                // the shim's lock acquisition is a try-lock loop without fairness: leave the writers room
                std::thread::sleep(std::time::Duration::from_millis(1));
            }
        }
    });
    account_outcome(part, job, round, &out, "big-vector");
    part.evaluations += 1;
    part.count("e1_big_vector_collections", collections.load(Ordering::SeqCst));
    part.count("e1_big_vector_churn_operations", 2 * 2 * churn_rounds);
    for (rule, msg) in bad.into_inner().unwrap() {
        violation(part, job, round, &rule, "IntCounter/big-vector", msg, Json::Null);
    }
}

pub fn run(job: &Job, part: &mut Part) {
    match job.engine {
        Engine::E1 => {
            let start = std::time::Instant::now();
            let mut case = job.first_case;
            run_big(job, part, 0);
            while start.elapsed().as_secs_f64() < job.secs {
                for _ in 0..200 {
                    run_case(job, case, part, false);
                    case += 1;
                }
            }
        }
        _ => {
            for case in job.first_case..job.first_case + job.cases {
                run_case(job, case, part, false);
                // every fourth case also runs a long single-threaded history against the same model
                if case % 4 == 0 && job.engine == Engine::E2 {
                    let seq_job = Job { engine: Engine::Native, ..job.clone() };
                    run_case(&seq_job, case, part, true);
                    part.count("sequential_histories", 1);
                }
            }
        }
    }
}
