//! C11 — gauge operations are atomic.
//!
//! Two or three threads issue set/inc/dec/add/sub/get on one shared Gauge or
//! IntGauge; the recorded history is checked for linearizability against a
//! one-number model that performs exactly the library's arithmetic
//! (`sub(d)` is `+(-d)`, integer flavour wraps).
use prometheus::core::{Collector, Metric};
use prometheus::{Gauge, GaugeVec, IntGauge, IntGaugeVec, Opts};
use vcore::jobj;
use vcore::json::Json;
use vcore::prng::Rng;
use vcore::report::Part;
use vcore::wgl::{self, Entry, Model, Verdict};

use crate::common::{account_outcome, violation, Job, Rec, Sinks};
use crate::sched::{run_threads, Engine};

#[derive(Clone, Copy, Debug, PartialEq, Eq)]
pub enum Flavour {
    F64,
    I64,
}

#[derive(Clone, Copy, Debug, PartialEq, Eq)]
pub enum Via {
    Get,
    Metric,
    Collect,
}

/// Operands are carried as raw bits (f64 bits or i64 as u64).
#[derive(Clone, Debug, PartialEq)]
pub enum GOp {
    Set(u64),
    Inc,
    Dec,
    Add(u64),
    Sub(u64),
    Read(Via),
}

#[derive(Clone, Debug)]
pub enum GRec {
    Set(u64),
    Inc,
    Dec,
    Add(u64),
    Sub(u64),
    Read { bits: u64, via: Via },
}

#[derive(Clone, Debug)]
pub struct Scenario {
    pub flavour: Flavour,
    /// integer flavour only: operands near i64::MAX / i64::MIN (the library's integer gauge wraps);
    /// reads then go through get() only, the exposed f64 cannot hold such values exactly
    pub extreme: bool,
    pub in_vec: bool,
    pub threads: Vec<Vec<GOp>>,
}

#[derive(Clone)]
enum G {
    F(Gauge),
    I(IntGauge),
}

impl G {
    fn apply(&self, op: &GOp) {
        match (self, op) {
            (G::F(g), GOp::Set(b)) => g.set(f64::from_bits(*b)),
            (G::F(g), GOp::Inc) => g.inc(),
            (G::F(g), GOp::Dec) => g.dec(),
            (G::F(g), GOp::Add(b)) => g.add(f64::from_bits(*b)),
            (G::F(g), GOp::Sub(b)) => g.sub(f64::from_bits(*b)),
            (G::I(g), GOp::Set(b)) => g.set(*b as i64),
            (G::I(g), GOp::Inc) => g.inc(),
            (G::I(g), GOp::Dec) => g.dec(),
            (G::I(g), GOp::Add(b)) => g.add(*b as i64),
            (G::I(g), GOp::Sub(b)) => g.sub(*b as i64),
            (_, GOp::Read(_)) => unreachable!(),
        }
    }
    fn get_bits(&self) -> u64 {
        match self {
            G::F(g) => g.get().to_bits(),
            G::I(g) => g.get() as u64,
        }
    }
    /// value as exposed (always an f64 in the data model)
    fn exposed(&self, m: &prometheus::proto::Metric) -> u64 {
        let v = m.get_gauge().value();
        match self {
            G::F(_) => v.to_bits(),
            G::I(_) => (v as i64) as u64,
        }
    }
    fn metric_bits(&self) -> u64 {
        let m = match self {
            G::F(g) => g.metric(),
            G::I(g) => g.metric(),
        };
        self.exposed(&m)
    }
    fn collect_bits(&self) -> u64 {
        let mfs = match self {
            G::F(g) => g.collect(),
            G::I(g) => g.collect(),
        };
        self.exposed(&mfs[0].get_metric()[0])
    }
}

struct GaugeModel {
    flavour: Flavour,
}

impl Model for GaugeModel {
    type State = u64;
    type Op = GRec;
    fn init(&self) -> u64 {
        match self.flavour {
            Flavour::F64 => 0.0f64.to_bits(),
            Flavour::I64 => 0,
        }
    }
    fn step(&self, s: &u64, op: &GRec) -> Option<u64> {
        match self.flavour {
            Flavour::F64 => {
                let v = f64::from_bits(*s);
                match op {
                    GRec::Set(b) => Some(*b),
                    GRec::Inc => Some((v + 1.0).to_bits()),
                    GRec::Dec => Some((v + (-1.0)).to_bits()),
                    GRec::Add(b) => Some((v + f64::from_bits(*b)).to_bits()),
                    GRec::Sub(b) => Some((v + (-f64::from_bits(*b))).to_bits()),
                    GRec::Read { bits, .. } => {
                        if bits == s {
                            Some(*s)
                        } else {
                            None
                        }
                    }
                }
            }
            Flavour::I64 => {
                let v = *s as i64;
                match op {
                    GRec::Set(b) => Some(*b),
                    GRec::Inc => Some(v.wrapping_add(1) as u64),
                    GRec::Dec => Some(v.wrapping_sub(1) as u64),
                    GRec::Add(b) => Some(v.wrapping_add(*b as i64) as u64),
                    GRec::Sub(b) => Some(v.wrapping_sub(*b as i64) as u64),
                    GRec::Read { bits, .. } => {
                        if bits == s {
                            Some(*s)
                        } else {
                            None
                        }
                    }
                }
            }
        }
    }
}

/// Integer-valued operands whose upper and lower 32-bit halves both carry information,
/// small enough that every sum stays exact in an f64 and exact when exposed as f64.
fn operand(rng: &mut Rng, flavour: Flavour, k: u64) -> u64 {
    // float flavour, one operand in six: magnitudes far apart / non-integers, so that a value computed
    // from a stale read (or re-associated) does not round to the same bits
    if flavour == Flavour::F64 && rng.chance(1, 6) {
        let v = *rng.pick(&[1e300, -1e300, 1e-300, 0.1, -0.3, 1e17 + 2.0, 3.5e-9, 7.25, -0.0]);
        return (v * (1.0 + (k % 7) as f64)).to_bits();
    }
    let hi = 1 + rng.below(1 << 16);
    let lo = (k << 8) | rng.below(256) | 0x1_0000;
    let v = ((hi << 32) | lo) as i64;
    let v = if rng.chance(1, 4) { -v } else { v };
    match flavour {
        Flavour::F64 => (v as f64).to_bits(),
        Flavour::I64 => v as u64,
    }
}

pub fn generate(rng: &mut Rng, job: &Job) -> Scenario {
    let flavour = if rng.chance(1, 2) { Flavour::F64 } else { Flavour::I64 };
    let in_vec = rng.chance(1, 4);
    let extreme = flavour == Flavour::I64 && rng.chance(1, 6);
    let nthreads = 2 + rng.usize_below(2);
    let small = job.engine == Engine::Native;
    let mut k = 1u64;
    let mut threads = Vec::new();
    for _ in 0..nthreads {
        let nops = if small { 2 + rng.usize_below(2) } else { 3 + rng.usize_below(3) };
        let mut ops: Vec<GOp> = Vec::new();
        let mut pending_sub: Option<u64> = None;
        for _ in 0..nops {
            k += 1;
            if extreme {
                let big = |rng: &mut Rng| -> u64 {
                    let v = match rng.below(4) {
                        0 => i64::MAX - rng.below(16) as i64,
                        1 => i64::MIN + rng.below(16) as i64,
                        2 => (i64::MAX / 2) + rng.below(1000) as i64,
                        _ => 1 + rng.below(64) as i64,
                    };
                    v as u64
                };
                let op = match rng.below(8) {
                    0 | 1 => GOp::Set(big(rng)),
                    2 | 3 => GOp::Add(big(rng)),
                    4 => GOp::Sub(big(rng)),
                    5 => GOp::Inc,
                    _ => GOp::Read(Via::Get),
                };
                ops.push(op);
                continue;
            }
            let op = match rng.below(12) {
                0 | 1 => GOp::Set(operand(rng, flavour, k)),
                2 => GOp::Inc,
                3 => GOp::Dec,
                4 | 5 => {
                    let b = operand(rng, flavour, k);
                    pending_sub = Some(b);
                    GOp::Add(b)
                }
                6 | 7 => match pending_sub.take() {
                    // sub(x) after add(x) by the same thread: must undo it
                    Some(b) => GOp::Sub(b),
                    None => GOp::Sub(operand(rng, flavour, k)),
                },
                8 | 9 => GOp::Read(Via::Get),
                10 => GOp::Read(Via::Metric),
                _ => GOp::Read(Via::Collect),
            };
            ops.push(op);
        }
        threads.push(ops);
    }
    Scenario { flavour, extreme, in_vec, threads }
}

fn show(flavour: Flavour, bits: u64) -> String {
    match flavour {
        Flavour::F64 => format!("{:?}", f64::from_bits(bits)),
        Flavour::I64 => format!("{}", bits as i64),
    }
}

pub fn history_json(fl: Flavour, h: &[Rec<GRec>]) -> Json {
    Json::Arr(
        h.iter()
            .map(|r| {
                let what = match &r.op {
                    GRec::Set(b) => format!("set({})", show(fl, *b)),
                    GRec::Inc => "inc()".into(),
                    GRec::Dec => "dec()".into(),
                    GRec::Add(b) => format!("add({})", show(fl, *b)),
                    GRec::Sub(b) => format!("sub({})", show(fl, *b)),
                    GRec::Read { bits, via } => format!("{:?} -> {}", via, show(fl, *bits)),
                };
                Json::Str(format!("t{} [{}..{}] {}", r.tid, r.call, r.ret, what))
            })
            .collect(),
    )
}

pub fn run_case(job: &Job, case: u64, part: &mut Part) {
    let mut rng = Rng::derive(job.seed, case.wrapping_mul(2).wrapping_add(0xC11));
    let sc = generate(&mut rng, job);
    // a gauge in a vector is fetched through the vector by every operation (creation race in play)
    let fvec = GaugeVec::new(Opts::new("c11_g", "h"), &["l"]).unwrap();
    let ivec = IntGaugeVec::new(Opts::new("c11_g", "h"), &["l"]).unwrap();
    let standalone = match sc.flavour {
        Flavour::F64 => G::F(Gauge::with_opts(Opts::new("c11_g", "h")).unwrap()),
        Flavour::I64 => G::I(IntGauge::with_opts(Opts::new("c11_g", "h")).unwrap()),
    };
    let fetch = || -> G {
        match (sc.flavour, sc.in_vec) {
            (_, false) => standalone.clone(),
            (Flavour::F64, true) => G::F(fvec.with_label_values(&["v"])),
            (Flavour::I64, true) => G::I(ivec.with_label_values(&["v"])),
        }
    };
    let sinks: Sinks<GRec> = Sinks::new(sc.threads.len());
    let cfg = job.run_cfg(case, false);
    let out = run_threads(&cfg, sc.threads.len(), &|tid| {
        for op in &sc.threads[tid] {
            match op {
                GOp::Read(via) => {
                    sinks.call(
                        tid,
                        || match via {
                            Via::Get => fetch().get_bits(),
                            Via::Metric => fetch().metric_bits(),
                            Via::Collect => fetch().collect_bits(),
                        },
                        |b| GRec::Read { bits: *b, via: *via },
                    );
                }
                other => {
                    sinks.call(
                        tid,
                        || fetch().apply(other),
                        |_| match other {
                            GOp::Set(b) => GRec::Set(*b),
                            GOp::Inc => GRec::Inc,
                            GOp::Dec => GRec::Dec,
                            GOp::Add(b) => GRec::Add(*b),
                            GOp::Sub(b) => GRec::Sub(*b),
                            GOp::Read(_) => unreachable!(),
                        },
                    );
                }
            }
        }
    });
    part.evaluations += 1;
    account_outcome(part, job, case, &out, "gauge");
    if let Some(a) = &out.abort {
        part.count("aborted_runs", 1);
        part.inconclusive = Some(format!("case {} did not run to completion: {:?}", case, a));
        return;
    }
    let mut history = sinks.into_history();
    // final reads after all threads joined
    let fin: Sinks<GRec> = Sinks::new(1);
    fin.call(0, || fetch().get_bits(), |b| GRec::Read { bits: *b, via: Via::Get });
    if !sc.extreme {
        fin.call(0, || fetch().collect_bits(), |b| GRec::Read { bits: *b, via: Via::Collect });
    }
    history.extend(fin.into_history());
    let overlapping = history.iter().filter(|r| history.iter().any(|o| o.tid != r.tid && o.call < r.ret && r.call < o.ret)).count() as u64;
    part.count("operations_overlapping_another_thread", overlapping);
    part.count("history_operations", history.len() as u64);
    if job.engine != Engine::E2 {
        let mut h = vcore::prng::Fnv::new();
        for r in &history {
            h.u64(r.tid as u64);
            h.u64(r.call);
            if let GRec::Read { bits, .. } = &r.op {
                h.u64(*bits);
            }
        }
        part.distinct.insert(h.finish());
    }
    let entries: Vec<Entry<GRec>> = history.iter().map(|r| Entry { op: r.op.clone(), call: r.call, ret: r.ret }).collect();
    let detail = jobj! {"flavour" => format!("{:?}", sc.flavour), "in_vec" => sc.in_vec, "extreme_operands" => sc.extreme, "history" => history_json(sc.flavour, &history)};
    part.sample(3, detail.clone());
    if job.verbose {
        println!("{}", detail.to_string());
    }
    match wgl::check(&GaugeModel { flavour: sc.flavour }, &entries, 3_000_000) {
        Verdict::Linearizable(_) => {}
        Verdict::Inconclusive => part.count("search_inconclusive", 1),
        Verdict::NotLinearizable(best) => {
            violation(
                part,
                job,
                case,
                "gauge-history-not-linearizable",
                &format!("{:?}", sc.flavour),
                format!(
                    "no order of set/inc/dec/add/sub/get consistent with real time explains the values read (longest explained prefix {} of {} operations)",
                    best.len(),
                    entries.len()
                ),
                detail,
            );
        }
    }
}

pub fn run(job: &Job, part: &mut Part) {
    match job.engine {
        Engine::E1 => {
            let start = std::time::Instant::now();
            let mut case = job.first_case;
            while start.elapsed().as_secs_f64() < job.secs {
                for _ in 0..200 {
                    run_case(job, case, part);
                    case += 1;
                }
            }
        }
        _ => {
            for case in job.first_case..job.first_case + job.cases {
                run_case(job, case, part);
            }
        }
    }
}
