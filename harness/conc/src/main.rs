//! Concurrent-workload harness (C01, C02, C03, C10, C11; registry histories on threads for C06, C07).
//!
//!   conc <property> --engine e1|e2|native --seed S [--first N --cases N] [--secs T]
//!        [--thorough] [--verbose] --out <part.json>
mod common;
mod sched;
mod wl_counter;
mod wl_gauge;
mod wl_hist;
mod wl_registry;
mod wl_vec;
#[cfg(prometheus_verif)]
mod hb;

use common::Job;
use sched::Engine;
use vcore::report::{arg_map, Part};

fn main() {
    let args: Vec<String> = std::env::args().skip(1).collect();
    if args.is_empty() {
        eprintln!("usage: conc <property> --engine e1|e2|native --seed S --first N --cases N --secs T --out file");
        std::process::exit(2);
    }
    let property = args[0].clone();
    let m = arg_map(&args[1..]);
    let engine = match m.get("engine").map(|s| s.as_str()).unwrap_or("e2") {
        "e1" => Engine::E1,
        "e2" => Engine::E2,
        "native" => Engine::Native,
        other => {
            eprintln!("unknown engine {}", other);
            std::process::exit(2);
        }
    };
    let job = Job {
        property: property.clone(),
        engine,
        seed: m.get("seed").and_then(|s| s.parse().ok()).unwrap_or(1),
        first_case: m.get("first").and_then(|s| s.parse().ok()).unwrap_or(0),
        cases: m.get("cases").and_then(|s| s.parse().ok()).unwrap_or(100),
        secs: m.get("secs").and_then(|s| s.parse().ok()).unwrap_or(2.0),
        thorough: m.contains_key("thorough"),
        verbose: m.contains_key("verbose"),
    };
    let rule = match engine {
        Engine::E2 => "one case = one generated scenario executed under one seeded schedule of the library's atomic steps; distinct = distinct schedule signatures (hash of the executed (thread, step kind, location, outcome) sequence)",
        _ => "one case = one generated scenario executed on real threads; distinct = distinct recorded client-boundary histories (stamps and values read)",
    };
    let mut part = Part::new(&property, job.engine_name(), job.seed, rule);
    // library panics are reported through the outcome; keep stderr quiet for expected unwinds
    std::panic::set_hook(Box::new(|_| {}));
    match property.as_str() {
        "C01" => wl_counter::run(&job, &mut part),
        "C11" => wl_gauge::run(&job, &mut part),
        "C02" | "C03" => wl_hist::run(&job, &mut part),
        "C10" => wl_vec::run(&job, &mut part),
        "C06" | "C07" => wl_registry::run(&job, &mut part),
        other => {
            eprintln!("unknown property {}", other);
            std::process::exit(2);
        }
    }
    if let Some(out) = m.get("out") {
        part.write(out);
    } else {
        println!("{}", part.to_json().to_string());
    }
    if part.violated() {
        for v in &part.violations {
            eprintln!("violation {}: {}", v.signature, v.explanation);
        }
        std::process::exit(1);
    }
    if part.inconclusive.is_some() {
        std::process::exit(3);
    }
}
