//! C16 — exposition does not depend on the `protobuf` feature.
//!
//! One deterministic scenario interpreter, built twice (feature `pb` on = the crate's
//! default protobuf-backed data model, off = `--no-default-features`, the plain
//! model). Each build writes, per gather/collect of every scenario, a canonical dump
//! of the structure (through getters that exist in both models) and the TextEncoder
//! bytes. The orchestrator diffs the two dump streams line by line.
//!
//!   xbuild --seed S --first N --cases N --dump <file>
use std::collections::HashMap;
use std::fmt::Write as _;
use std::io::Write as _;

use prometheus::core::{Collector, Desc};
use prometheus::proto::{self, MetricFamily, MetricType};
use prometheus::{Counter, CounterVec, Encoder, Gauge, GaugeVec, Histogram, HistogramOpts, HistogramVec, IntCounter, IntCounterVec, IntGauge, IntGaugeVec, Opts, PullingGauge, Registry, TextEncoder};
use vcore::pools;
use vcore::prng::{Fnv, Rng};
use vcore::report::arg_map;

#[cfg(feature = "pb")]
mod acc {
    use prometheus::proto::Metric;
    pub const MODEL: &str = "protobuf";
    pub fn counter(m: &Metric) -> f64 {
        m.get_counter().value()
    }
    pub fn gauge(m: &Metric) -> f64 {
        m.get_gauge().value()
    }
}
#[cfg(not(feature = "pb"))]
mod acc {
    use prometheus::proto::Metric;
    pub const MODEL: &str = "plain";
    pub fn counter(m: &Metric) -> f64 {
        m.get_counter().get_value()
    }
    pub fn gauge(m: &Metric) -> f64 {
        m.get_gauge().get_value()
    }
}

fn esc(s: &str, out: &mut String) {
    for c in s.chars() {
        if c.is_ascii_graphic() && c != '\\' && c != '|' {
            out.push(c);
        } else {
            let _ = write!(out, "\\u{{{:x}}}", c as u32);
        }
    }
}

/// Canonical one-line dump of an exposition, through getters only.
fn dump(mfs: &[MetricFamily]) -> String {
    let mut o = String::new();
    for mf in mfs {
        o.push_str("F|");
        esc(mf.name(), &mut o);
        o.push('|');
        esc(mf.help(), &mut o);
        let t = mf.get_field_type();
        let _ = write!(o, "|{:?}|", t);
        for m in mf.get_metric() {
            o.push_str("M[");
            for l in m.get_label() {
                esc(l.name(), &mut o);
                o.push('=');
                esc(l.value(), &mut o);
                o.push(',');
            }
            o.push(']');
            match t {
                MetricType::COUNTER => {
                    let _ = write!(o, "c{:016x}", acc::counter(m).to_bits());
                }
                MetricType::GAUGE => {
                    let _ = write!(o, "g{:016x}", acc::gauge(m).to_bits());
                }
                MetricType::HISTOGRAM => {
                    let h = m.get_histogram();
                    let _ = write!(o, "h{}:{:016x}:", h.get_sample_count(), h.get_sample_sum().to_bits());
                    for b in h.get_bucket() {
                        let _ = write!(o, "{:016x}={},", b.upper_bound().to_bits(), b.cumulative_count());
                    }
                }
                MetricType::SUMMARY => {
                    let s = m.get_summary();
                    let _ = write!(o, "s{}:{:016x}:", s.sample_count(), s.sample_sum().to_bits());
                    for q in s.get_quantile() {
                        let _ = write!(o, "{:016x}={:016x},", q.quantile().to_bits(), q.value().to_bits());
                    }
                }
                MetricType::UNTYPED => o.push('u'),
            }
            let _ = write!(o, "@{};", m.timestamp_ms());
        }
    }
    o
}

/// The same exposition once more, through the older `get_*` accessor family (both data models offer it,
/// the plain one as deprecated aliases): a family read through either set of getters is the same family.
#[allow(deprecated)]
fn dump_legacy(mfs: &[MetricFamily]) -> String {
    let mut o = String::new();
    for mf in mfs {
        o.push_str("f|");
        esc(mf.get_name(), &mut o);
        o.push('|');
        esc(mf.get_help(), &mut o);
        o.push('|');
        for m in mf.get_metric() {
            o.push('[');
            for l in m.get_label() {
                esc(l.get_name(), &mut o);
                o.push('=');
                esc(l.get_value(), &mut o);
                o.push(',');
            }
            o.push(']');
            if mf.get_field_type() == MetricType::HISTOGRAM {
                let h = m.get_histogram();
                for b in h.get_bucket() {
                    let _ = write!(o, "{:016x}={},", b.get_upper_bound().to_bits(), b.get_cumulative_count());
                }
            }
            if mf.get_field_type() == MetricType::SUMMARY {
                let q = m.get_summary();
                let _ = write!(o, "s{}:{:016x}:", q.get_sample_count(), q.get_sample_sum().to_bits());
                for q in q.get_quantile() {
                    let _ = write!(o, "{:016x}={:016x},", q.get_quantile().to_bits(), q.get_value().to_bits());
                }
            }
            let _ = write!(o, "@{};", m.get_timestamp_ms());
        }
    }
    o
}

fn text_of(mfs: &[MetricFamily]) -> String {
    let mut out = String::new();
    match TextEncoder::new().encode_to_string(mfs) {
        Ok(t) => {
            let mut v = Vec::new();
            let r2 = TextEncoder::new().encode(mfs, &mut v);
            out.push_str(if r2.is_ok() && v == t.as_bytes() { "ok:" } else { "entry-points-differ:" });
            esc(&t, &mut out);
        }
        Err(_) => {
            // the message embeds the Debug form of the model's structs, which is not part of the property
            out.push_str("err");
        }
    }
    out
}

struct Custom {
    descs: Vec<Desc>,
    fams: Vec<MetricFamily>,
}
impl Collector for Custom {
    fn desc(&self) -> Vec<&Desc> {
        self.descs.iter().collect()
    }
    fn collect(&self) -> Vec<MetricFamily> {
        self.fams.clone()
    }
}

#[allow(deprecated)]
fn lp(n: &str, v: &str) -> proto::LabelPair {
    let mut l = proto::LabelPair::default();
    // half of the pairs are first given another name which is cleared again (both models offer clear_name)
    if n.len() % 2 == 1 || v.len() % 2 == 1 {
        l.set_name("scratch".to_string());
        l.clear_name();
        if !l.name().is_empty() {
            l.set_value(format!("clear_name left {:?} behind", l.name()));
            return l;
        }
    }
    l.set_name(n.to_string());
    l.set_value(v.to_string());
    l
}

/// A hand-built summary / histogram family as a custom collector would supply it.
fn custom_family(rng: &mut Rng, name: &str, fpool: &[f64]) -> MetricFamily {
    let mut mf = MetricFamily::default();
    mf.set_name(name.to_string());
    mf.set_help(pools::any_string(rng));
    let summary = rng.chance(1, 2);
    mf.set_field_type(if summary { MetricType::SUMMARY } else { MetricType::HISTOGRAM });
    let mut ms = Vec::new();
    for i in 0..1 + rng.usize_below(3) {
        let mut m = proto::Metric::default();
        m.set_label(vec![lp("k", &format!("{}{}", i, pools::any_string(rng)))]);
        if summary {
            let mut s = proto::Summary::default();
            s.set_sample_count(rng.next_u64() >> rng.below(64));
            s.set_sample_sum(pools::any_f64(rng, fpool));
            let mut qs = Vec::new();
            for _ in 0..rng.usize_below(4) {
                let mut q = proto::Quantile::default();
                q.set_quantile(pools::any_f64(rng, fpool));
                q.set_value(pools::any_f64(rng, fpool));
                qs.push(q);
            }
            s.set_quantile(qs);
            m.set_summary(s);
        } else {
            let mut h = proto::Histogram::default();
            h.set_sample_count(rng.below(1000));
            h.set_sample_sum(pools::any_f64(rng, fpool));
            let mut bs = Vec::new();
            for j in 0..rng.usize_below(4) {
                let mut b = proto::Bucket::default();
                b.set_upper_bound(if j == 3 { f64::INFINITY } else { j as f64 * 1.5 });
                b.set_cumulative_count(j as u64 * 3);
                bs.push(b);
            }
            h.set_bucket(bs);
            m.set_histogram(h);
        }
        if rng.chance(1, 2) {
            m.set_timestamp_ms(match rng.below(3) {
                0 => -5,
                1 => i64::MAX,
                _ => 1_700_000_000_000,
            });
        }
        ms.push(m);
    }
    // the mutators of the data model, in the order a collector that recycles a family would use them
    #[allow(deprecated)]
    match rng.below(4) {
        0 => mf.set_metric(ms),
        1 => {
            // fill, empty again through take_metric, fill for good
            mf.set_metric(ms.clone());
            let _ = mf.take_metric();
            mf.set_metric(ms);
        }
        2 => {
            // fill through mut_metric after a set / take round trip
            mf.set_metric(ms);
            let taken = mf.take_metric();
            for m in taken {
                mf.mut_metric().push(m);
            }
        }
        _ => {
            // the name is set to something else first, cleared, and set again; the labels travel through take_label
            mf.set_name("recycled_family".to_string());
            mf.clear_name();
            let leftover = mf.name().to_string();
            mf.set_name(format!("{}{}", leftover, name));
            for m in ms.iter_mut() {
                let mut l = m.take_label();
                for p in l.iter_mut() {
                    let v = p.value().to_string();
                    p.set_value(v);
                }
                m.set_label(l);
            }
            mf.set_metric(ms);
        }
    }
    mf
}

enum Obj {
    C(Counter),
    IC(IntCounter),
    G(Gauge),
    IG(IntGauge),
    H(Histogram),
    CV(CounterVec),
    ICV(IntCounterVec),
    GV(GaugeVec),
    IGV(IntGaugeVec),
    HV(HistogramVec),
}

fn scenario(seed: u64, case: u64, out: &mut Vec<String>) {
    let mut rng = Rng::derive(seed, case.wrapping_mul(2).wrapping_add(0xC16));
    let fpool = pools::float_pool();
    let mut emit = |what: &str, mfs: &[MetricFamily]| {
        out.push(format!("case {} {} D {}", case, what, dump(mfs)));
        out.push(format!("case {} {} L {}", case, what, dump_legacy(mfs)));
        out.push(format!("case {} {} T {}", case, what, text_of(mfs)));
    };
    // registry with / without prefix and common labels
    let prefix = if rng.chance(1, 2) { Some(rng.pick(&["pre", "a:b", "_x"]).to_string()) } else { None };
    let labels = if rng.chance(1, 2) {
        let mut m = HashMap::new();
        for n in ["zone", "host", "w", "az", "cluster"].iter().take(1 + rng.usize_below(5)) {
            m.insert(n.to_string(), pools::any_string(&mut rng));
        }
        Some(m)
    } else {
        None
    };
    let reg = Registry::new_custom(prefix, labels).unwrap();
    let mut objs: Vec<Obj> = Vec::new();
    // one scenario in twenty-five is large: many objects, many steps (many children, long gathers)
    let large = case % 25 == 3;
    let nobj = if large { 20 + rng.usize_below(40) } else { 1 + rng.usize_below(6) };
    for i in 0..nobj {
        let name = format!("m{}_{}", i, rng.pick(&["a", "b:c", "total"]));
        let mut cl = HashMap::new();
        let nconst = if rng.chance(1, 6) { 4 + rng.usize_below(3) } else { rng.usize_below(3) };
        for n in ["ca", "cb", "cc", "cd", "ce", "cf"].iter().take(nconst) {
            cl.insert(n.to_string(), pools::any_string(&mut rng));
        }
        let help = format!("h{}", pools::any_string(&mut rng));
        let opts = Opts::new(name.clone(), help.clone()).const_labels(cl.clone());
        let buckets = match rng.below(4) {
            0 => vec![],
            1 => vec![0.5, 1.0, f64::INFINITY],
            2 => vec![-1.0, 0.0, 2.5, 1e300],
            _ => vec![1.0],
        };
        let hopts = HistogramOpts::new(name.clone(), help.clone()).const_labels(cl.clone()).buckets(buckets);
        let vl: &[&str] = if rng.chance(1, 2) { &["l1"] } else { &["l1", "l2"] };
        let o = match rng.below(11) {
            0 => Obj::C(Counter::with_opts(opts).unwrap()),
            1 => Obj::IC(IntCounter::with_opts(opts).unwrap()),
            2 => Obj::G(Gauge::with_opts(opts).unwrap()),
            3 => Obj::IG(IntGauge::with_opts(opts).unwrap()),
            4 => Obj::H(Histogram::with_opts(hopts).unwrap()),
            5 => Obj::CV(CounterVec::new(opts, vl).unwrap()),
            6 => Obj::ICV(IntCounterVec::new(opts, vl).unwrap()),
            7 => Obj::GV(GaugeVec::new(opts, vl).unwrap()),
            8 => Obj::IGV(IntGaugeVec::new(opts, vl).unwrap()),
            9 => Obj::HV(HistogramVec::new(hopts, vl).unwrap()),
            _ => {
                // pulling gauge and custom collector are registered directly
                let v = pools::any_f64(&mut rng, &fpool);
                reg.register(Box::new(PullingGauge::new(format!("pull{}", i), help.clone(), Box::new(move || v)).unwrap())).unwrap();
                let cname = format!("custom{}", i);
                let fam = custom_family(&mut rng, &cname, &fpool);
                let d = Desc::new(cname, "custom help".into(), vec!["k".into()], HashMap::new()).unwrap();
                reg.register(Box::new(Custom { descs: vec![d], fams: vec![fam] })).unwrap();
                continue;
            }
        };
        let boxed: Box<dyn Collector> = match &o {
            Obj::C(x) => Box::new(x.clone()),
            Obj::IC(x) => Box::new(x.clone()),
            Obj::G(x) => Box::new(x.clone()),
            Obj::IG(x) => Box::new(x.clone()),
            Obj::H(x) => Box::new(x.clone()),
            Obj::CV(x) => Box::new(x.clone()),
            Obj::ICV(x) => Box::new(x.clone()),
            Obj::GV(x) => Box::new(x.clone()),
            Obj::IGV(x) => Box::new(x.clone()),
            Obj::HV(x) => Box::new(x.clone()),
        };
        reg.register(boxed).unwrap();
        objs.push(o);
    }
    let nsteps = if large { 400 + rng.usize_below(800) } else { 3 + rng.usize_below(20) };
    for step in 0..nsteps {
        if objs.is_empty() {
            break;
        }
        let oi = rng.usize_below(objs.len());
        let f = pools::any_f64(&mut rng, &fpool);
        let pos = if f.is_finite() { f.abs() } else if f.is_nan() { 1.5 } else { f64::INFINITY };
        let vals2 = [pools::any_string(&mut rng), pools::any_string(&mut rng)];
        let which = rng.below(4);
        macro_rules! child {
            ($v:expr) => {{
                let n = $v.desc()[0].variable_labels.len();
                let vs: Vec<&str> = vals2[..n].iter().map(|s| s.as_str()).collect();
                match which {
                    0 => {
                        let _ = $v.remove_label_values(&vs);
                        None
                    }
                    1 if step % 7 == 6 => {
                        $v.reset();
                        None
                    }
                    _ => Some($v.with_label_values(&vs)),
                }
            }};
        }
        match &objs[oi] {
            Obj::C(c) => c.inc_by(pos),
            Obj::IC(c) => c.inc_by(pos.min(1e18) as u64),
            Obj::G(g) => match which {
                0 => g.set(f),
                1 => g.add(f),
                2 => g.sub(f),
                _ => g.inc(),
            },
            Obj::IG(g) => match which {
                0 => g.set(f as i64),
                1 => g.add((f as i64) >> 2),
                _ => g.dec(),
            },
            Obj::H(h) => {
                if which == 0 {
                    let l = h.local();
                    l.observe(f);
                    l.observe(1.0);
                    l.flush();
                } else {
                    h.observe(f)
                }
            }
            Obj::CV(v) => {
                if let Some(c) = child!(v) {
                    c.inc_by(pos)
                }
            }
            Obj::ICV(v) => {
                if let Some(c) = child!(v) {
                    c.inc_by(pos.min(1e18) as u64)
                }
            }
            Obj::GV(v) => {
                if let Some(c) = child!(v) {
                    c.set(f)
                }
            }
            Obj::IGV(v) => {
                if let Some(c) = child!(v) {
                    c.set(f as i64)
                }
            }
            Obj::HV(v) => {
                if let Some(c) = child!(v) {
                    c.observe(f)
                }
            }
        }
        if rng.chance(1, if large { 100 } else { 4 }) {
            emit(&format!("gather{}", step), &reg.gather());
        }
        if rng.chance(1, if large { 200 } else { 8 }) {
            let mfs = match &objs[oi] {
                Obj::C(x) => x.collect(),
                Obj::IC(x) => x.collect(),
                Obj::G(x) => x.collect(),
                Obj::IG(x) => x.collect(),
                Obj::H(x) => x.collect(),
                Obj::CV(x) => x.collect(),
                Obj::ICV(x) => x.collect(),
                Obj::GV(x) => x.collect(),
                Obj::IGV(x) => x.collect(),
                Obj::HV(x) => x.collect(),
            };
            emit(&format!("collect{}", step), &mfs);
        }
    }
    emit("final-gather", &reg.gather());
    // a hand-built family straight into the encoder
    let fam = custom_family(&mut rng, "handbuilt", &fpool);
    emit("hand-built", &[fam]);
    // a family whose type was never set: both models must fall back to the same default
    let mut untouched = MetricFamily::default();
    untouched.set_name("default_typed".to_string());
    untouched.set_help("h".to_string());
    let mut m = proto::Metric::default();
    let mut c = proto::Counter::default();
    c.set_value(pools::any_f64(&mut rng, &fpool));
    m.set_counter(c);
    untouched.set_metric(vec![m]);
    emit("default-typed", &[untouched]);
}

fn main() {
    let args: Vec<String> = std::env::args().skip(1).collect();
    let m = arg_map(&args);
    let seed: u64 = m.get("seed").and_then(|s| s.parse().ok()).unwrap_or(1);
    let first: u64 = m.get("first").and_then(|s| s.parse().ok()).unwrap_or(0);
    let cases: u64 = m.get("cases").and_then(|s| s.parse().ok()).unwrap_or(100);
    let path = m.get("dump").cloned().unwrap_or_else(|| "/dev/stdout".to_string());
    let mut f = std::io::BufWriter::new(std::fs::File::create(&path).expect("cannot create dump file"));
    let full = m.contains_key("full");
    let mut lines = 0u64;
    let mut h = Fnv::new();
    for case in first..first + cases {
        let mut out = Vec::new();
        scenario(seed, case, &mut out);
        let mut ch = Fnv::new();
        let n = out.len();
        for l in out {
            h.str(&l);
            ch.str(&l);
            lines += 1;
            if full {
                writeln!(f, "{}", l).unwrap();
            }
        }
        if !full {
            // one line per scenario: digest of its whole dump (structure + text of every exposition)
            writeln!(f, "case {} {:016x} {}", case, ch.finish(), n).unwrap();
        }
    }
    f.flush().unwrap();
    eprintln!("model={} cases={} lines={} digest={:016x}", acc::MODEL, cases, lines, h.finish());
}
