//! Shared, library-independent pieces of the verification harness:
//! PRNG, JSON, digit codec, linearizability search, text-format parser,
//! protobuf wire decoder, name grammars, input pools, result reporting.
pub mod digits;
pub mod json;
pub mod names;
pub mod pbwire;
pub mod pools;
pub mod prng;
pub mod report;
pub mod textparse;
pub mod wgl;
