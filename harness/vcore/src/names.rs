//! Reference matchers written byte-wise from the two regular expressions of the
//! Prometheus data model:
//!   metric name  [a-zA-Z_:][a-zA-Z0-9_:]*
//!   label name   [a-zA-Z_][a-zA-Z0-9_]*
pub fn metric_name_ok(s: &str) -> bool {
    let b = s.as_bytes();
    if b.is_empty() {
        return false;
    }
    let first = |c: u8| matches!(c, b'a'..=b'z' | b'A'..=b'Z' | b'_' | b':');
    let rest = |c: u8| first(c) || matches!(c, b'0'..=b'9');
    first(b[0]) && b[1..].iter().all(|c| rest(*c))
}

pub fn label_name_ok(s: &str) -> bool {
    let b = s.as_bytes();
    if b.is_empty() {
        return false;
    }
    let first = |c: u8| matches!(c, b'a'..=b'z' | b'A'..=b'Z' | b'_');
    let rest = |c: u8| first(c) || matches!(c, b'0'..=b'9');
    first(b[0]) && b[1..].iter().all(|c| rest(*c))
}

/// The documented way namespace, subsystem and name are joined.
pub fn fq_name(namespace: &str, subsystem: &str, name: &str) -> String {
    if name.is_empty() {
        return String::new();
    }
    match (namespace.is_empty(), subsystem.is_empty()) {
        (false, false) => format!("{}_{}_{}", namespace, subsystem, name),
        (false, true) => format!("{}_{}", namespace, name),
        (true, false) => format!("{}_{}", subsystem, name),
        (true, true) => name.to_string(),
    }
}

#[cfg(test)]
mod tests {
    use super::*;
    #[test]
    fn grammar() {
        assert!(metric_name_ok("a:b_c9"));
        assert!(metric_name_ok(":x"));
        assert!(!metric_name_ok("9a"));
        assert!(!metric_name_ok(""));
        assert!(!metric_name_ok("a-b"));
        assert!(!metric_name_ok("é"));
        assert!(label_name_ok("_x9"));
        assert!(!label_name_ok("a:b"));
        assert!(!label_name_ok("x٣"));
    }
}
