//! Result "part" written by every harness process; the orchestrator
//! (tools/run_check.py) merges parts into /verif/evidence/<id>.json, filters
//! violations against known_findings.json and decides the exit code.
use crate::json::Json;
use crate::jobj;
use std::collections::{BTreeMap, BTreeSet};

#[derive(Clone, Debug)]
pub struct Violation {
    /// Stable signature: oracle rule + what class of input/site failed.
    pub signature: String,
    pub rule: String,
    pub explanation: String,
    /// Everything needed to re-run the case.
    pub replay: Json,
}

#[derive(Debug)]
pub struct Part {
    pub property: String,
    pub engine: String,
    pub seed: u64,
    pub evaluations: u64,
    /// Hashes of distinct non-trivial cases (by the engine's stated rule).
    pub distinct: BTreeSet<u64>,
    pub rule: String,
    pub counters: BTreeMap<String, u64>,
    pub samples: Vec<Json>,
    pub violations: Vec<Violation>,
    pub inconclusive: Option<String>,
    pub notes: Vec<String>,
    seen_sigs: BTreeSet<String>,
}

impl Part {
    pub fn new(property: &str, engine: &str, seed: u64, rule: &str) -> Part {
        Part {
            property: property.to_string(),
            engine: engine.to_string(),
            seed,
            evaluations: 0,
            distinct: BTreeSet::new(),
            rule: rule.to_string(),
            counters: BTreeMap::new(),
            samples: Vec::new(),
            violations: Vec::new(),
            inconclusive: None,
            notes: Vec::new(),
            seen_sigs: BTreeSet::new(),
        }
    }
    pub fn count(&mut self, key: &str, n: u64) {
        *self.counters.entry(key.to_string()).or_insert(0) += n;
    }
    pub fn max(&mut self, key: &str, n: u64) {
        let e = self.counters.entry(key.to_string()).or_insert(0);
        if n > *e {
            *e = n;
        }
    }
    pub fn sample(&mut self, limit: usize, j: Json) {
        if self.samples.len() < limit {
            self.samples.push(j);
        }
    }
    /// Record a violation; deduplicated by signature (first witness kept).
    pub fn violation(&mut self, v: Violation) {
        self.count("violations_raw", 1);
        if self.seen_sigs.insert(v.signature.clone()) && self.violations.len() < 50 {
            self.violations.push(v);
        }
    }
    /// Has a violation with this signature been recorded already (its witness is kept, later ones only counted)?
    pub fn seen(&self, signature: &str) -> bool {
        self.seen_sigs.contains(signature)
    }
    pub fn violated(&self) -> bool {
        !self.violations.is_empty()
    }
    pub fn to_json(&self) -> Json {
        let counters = Json::Obj(self.counters.iter().map(|(k, v)| (k.clone(), Json::UInt(*v))).collect());
        let distinct: Vec<Json> = self.distinct.iter().map(|h| Json::Str(format!("{:016x}", h))).collect();
        let viols: Vec<Json> = self
            .violations
            .iter()
            .map(|v| {
                jobj! {
                    "signature" => v.signature.clone(),
                    "rule" => v.rule.clone(),
                    "explanation" => v.explanation.clone(),
                    "replay" => v.replay.clone(),
                }
            })
            .collect();
        jobj! {
            "property" => self.property.clone(),
            "engine" => self.engine.clone(),
            "seed" => self.seed,
            "evaluations" => self.evaluations,
            "distinct" => Json::Arr(distinct),
            "rule" => self.rule.clone(),
            "counters" => counters,
            "samples" => Json::Arr(self.samples.clone()),
            "violations" => Json::Arr(viols),
            "inconclusive" => self.inconclusive.clone(),
            "notes" => self.notes.clone(),
        }
    }
    pub fn write(&self, path: &str) {
        let s = self.to_json().to_string();
        if let Some(dir) = std::path::Path::new(path).parent() {
            let _ = std::fs::create_dir_all(dir);
        }
        std::fs::write(path, s).expect("cannot write part file");
    }
}

/// Parse `--key value` style arguments.
pub fn arg_map(args: &[String]) -> BTreeMap<String, String> {
    let mut m = BTreeMap::new();
    let mut i = 0;
    while i < args.len() {
        if let Some(k) = args[i].strip_prefix("--") {
            if i + 1 < args.len() && !args[i + 1].starts_with("--") {
                m.insert(k.to_string(), args[i + 1].clone());
                i += 2;
                continue;
            }
            m.insert(k.to_string(), "1".to_string());
        }
        i += 1;
    }
    m
}
