//! xoshiro256** seeded through splitmix64. Deterministic, no dependencies.
#[derive(Clone, Debug)]
pub struct Rng {
    s: [u64; 4],
}

fn splitmix(x: &mut u64) -> u64 {
    *x = x.wrapping_add(0x9E37_79B9_7F4A_7C15);
    let mut z = *x;
    z = (z ^ (z >> 30)).wrapping_mul(0xBF58_476D_1CE4_E5B9);
    z = (z ^ (z >> 27)).wrapping_mul(0x94D0_49BB_1331_11EB);
    z ^ (z >> 31)
}

impl Rng {
    pub fn new(seed: u64) -> Rng {
        let mut x = seed ^ 0x5DEE_CE66_D1CE_4E5B;
        let s = [splitmix(&mut x), splitmix(&mut x), splitmix(&mut x), splitmix(&mut x)];
        Rng { s }
    }
    /// Independent stream derived from this seed and a stream label.
    pub fn derive(seed: u64, stream: u64) -> Rng {
        let mut x = seed.wrapping_mul(0xD6E8_FEB8_6659_FD93) ^ stream.wrapping_mul(0xA076_1D64_78BD_642F);
        let a = splitmix(&mut x);
        Rng::new(a ^ stream)
    }
    pub fn next_u64(&mut self) -> u64 {
        let r = self.s[1].wrapping_mul(5).rotate_left(7).wrapping_mul(9);
        let t = self.s[1] << 17;
        self.s[2] ^= self.s[0];
        self.s[3] ^= self.s[1];
        self.s[1] ^= self.s[2];
        self.s[0] ^= self.s[3];
        self.s[2] ^= t;
        self.s[3] = self.s[3].rotate_left(45);
        r
    }
    /// Uniform in 0..n (n > 0).
    pub fn below(&mut self, n: u64) -> u64 {
        debug_assert!(n > 0);
        // multiply-shift; bias is negligible for our n
        ((self.next_u64() as u128 * n as u128) >> 64) as u64
    }
    pub fn usize_below(&mut self, n: usize) -> usize {
        self.below(n as u64) as usize
    }
    /// Inclusive range.
    pub fn range(&mut self, lo: u64, hi: u64) -> u64 {
        lo + self.below(hi - lo + 1)
    }
    pub fn chance(&mut self, num: u64, den: u64) -> bool {
        self.below(den) < num
    }
    pub fn pick<'a, T>(&mut self, xs: &'a [T]) -> &'a T {
        &xs[self.usize_below(xs.len())]
    }
    pub fn shuffle<T>(&mut self, xs: &mut [T]) {
        for i in (1..xs.len()).rev() {
            let j = self.usize_below(i + 1);
            xs.swap(i, j);
        }
    }
    pub fn unit_f64(&mut self) -> f64 {
        (self.next_u64() >> 11) as f64 / (1u64 << 53) as f64
    }
}

/// FNV-1a, used for signatures of schedules / cases.
#[derive(Clone, Copy, Debug)]
pub struct Fnv(pub u64);
impl Default for Fnv {
    fn default() -> Self {
        Fnv(0xcbf2_9ce4_8422_2325)
    }
}
impl Fnv {
    pub fn new() -> Fnv {
        Fnv::default()
    }
    pub fn byte(&mut self, b: u8) {
        self.0 ^= b as u64;
        self.0 = self.0.wrapping_mul(0x0100_0000_01b3);
    }
    pub fn bytes(&mut self, bs: &[u8]) {
        for b in bs {
            self.byte(*b);
        }
    }
    pub fn u64(&mut self, v: u64) {
        self.bytes(&v.to_le_bytes());
    }
    pub fn str(&mut self, s: &str) {
        self.bytes(s.as_bytes());
        self.byte(0xff);
    }
    pub fn finish(&self) -> u64 {
        self.0
    }
}
