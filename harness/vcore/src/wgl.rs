//! Linearizability search (Wing–Gong with memoisation, as in Lowe's checker).
//!
//! A history is a list of completed operations with call/return stamps from one
//! monotonic ticket counter. `check` looks for an order that (a) respects real
//! time (an operation that returned before another was called comes first) and
//! (b) is accepted step by step by a deterministic sequential model.
//! Histories are kept small (<= 64 operations); the search carries a step
//! budget and reports `Inconclusive` when it is exhausted.
use std::collections::HashSet;
use std::hash::Hash;

pub trait Model {
    type State: Clone + Eq + Hash;
    type Op;
    fn init(&self) -> Self::State;
    /// Apply `op` (argument and observed result) to `state`; `None` when the
    /// observed result is impossible in that state.
    fn step(&self, state: &Self::State, op: &Self::Op) -> Option<Self::State>;
}

#[derive(Clone, Debug)]
pub struct Entry<O> {
    pub op: O,
    pub call: u64,
    pub ret: u64,
}

#[derive(Debug, PartialEq, Eq)]
pub enum Verdict {
    /// indices of the entries in a witness order
    Linearizable(Vec<usize>),
    /// longest prefix order reached, for the explanation
    NotLinearizable(Vec<usize>),
    Inconclusive,
}

pub fn check<M: Model>(model: &M, hist: &[Entry<M::Op>], budget: u64) -> Verdict {
    assert!(hist.len() <= 64, "history too long for the bitset");
    let n = hist.len();
    let full: u64 = if n == 64 { !0 } else { (1u64 << n) - 1 };
    let mut cx = Cx {
        model,
        hist,
        full,
        seen: HashSet::new(),
        order: Vec::with_capacity(n),
        best: Vec::new(),
        steps: 0,
        budget,
    };
    match cx.dfs(0, model.init()) {
        Some(true) => Verdict::Linearizable(cx.order),
        Some(false) => Verdict::NotLinearizable(cx.best),
        None => Verdict::Inconclusive,
    }
}

struct Cx<'a, M: Model> {
    model: &'a M,
    hist: &'a [Entry<M::Op>],
    full: u64,
    seen: HashSet<(u64, M::State)>,
    order: Vec<usize>,
    best: Vec<usize>,
    steps: u64,
    budget: u64,
}

impl<M: Model> Cx<'_, M> {
    fn dfs(&mut self, mask: u64, state: M::State) -> Option<bool> {
        if mask == self.full {
            return Some(true);
        }
        let mut min_ret = u64::MAX;
        for (i, e) in self.hist.iter().enumerate() {
            if mask >> i & 1 == 0 && e.ret < min_ret {
                min_ret = e.ret;
            }
        }
        for i in 0..self.hist.len() {
            if mask >> i & 1 == 0 && self.hist[i].call < min_ret {
                self.steps += 1;
                if self.steps > self.budget {
                    return None;
                }
                if let Some(s2) = self.model.step(&state, &self.hist[i].op) {
                    let m2 = mask | (1 << i);
                    if self.seen.insert((m2, s2.clone())) {
                        self.order.push(i);
                        if self.order.len() > self.best.len() {
                            self.best = self.order.clone();
                        }
                        match self.dfs(m2, s2) {
                            Some(true) => return Some(true),
                            None => return None,
                            Some(false) => {}
                        }
                        self.order.pop();
                    }
                }
            }
        }
        Some(false)
    }
}

#[cfg(test)]
mod tests {
    use super::*;

    #[derive(Clone, Debug)]
    enum RegOp {
        Write(u64),
        Read(u64),
    }
    struct Reg;
    impl Model for Reg {
        type State = u64;
        type Op = RegOp;
        fn init(&self) -> u64 {
            0
        }
        fn step(&self, s: &u64, op: &RegOp) -> Option<u64> {
            match op {
                RegOp::Write(v) => Some(*v),
                RegOp::Read(v) => {
                    if v == s {
                        Some(*s)
                    } else {
                        None
                    }
                }
            }
        }
    }

    fn e(op: RegOp, call: u64, ret: u64) -> Entry<RegOp> {
        Entry { op, call, ret }
    }

    #[test]
    fn register() {
        // w(1) || r(1) ; r(0) after both -> not linearizable
        let h = vec![e(RegOp::Write(1), 0, 3), e(RegOp::Read(1), 1, 2), e(RegOp::Read(0), 4, 5)];
        assert!(matches!(check(&Reg, &h, 1 << 20), Verdict::NotLinearizable(_)));
        // w(1) || r(0) ; r(1) after -> linearizable
        let h = vec![e(RegOp::Write(1), 0, 3), e(RegOp::Read(0), 1, 2), e(RegOp::Read(1), 4, 5)];
        assert!(matches!(check(&Reg, &h, 1 << 20), Verdict::Linearizable(_)));
        // sequential stale read
        let h = vec![e(RegOp::Write(1), 0, 1), e(RegOp::Read(0), 2, 3)];
        assert!(matches!(check(&Reg, &h, 1 << 20), Verdict::NotLinearizable(_)));
        // two concurrent writes, reads see 2 then 1 sequentially: not linearizable
        let h = vec![
            e(RegOp::Write(1), 0, 2),
            e(RegOp::Write(2), 1, 3),
            e(RegOp::Read(2), 4, 5),
            e(RegOp::Read(1), 6, 7),
        ];
        assert!(matches!(check(&Reg, &h, 1 << 20), Verdict::NotLinearizable(_)));
        let h = vec![
            e(RegOp::Write(1), 0, 6),
            e(RegOp::Write(2), 1, 3),
            e(RegOp::Read(2), 4, 5),
            e(RegOp::Read(1), 7, 8),
        ];
        assert!(matches!(check(&Reg, &h, 1 << 20), Verdict::Linearizable(_)));
    }
}
