//! Minimal JSON value, writer and parser (no dependencies).
use std::fmt::Write as _;

#[derive(Clone, Debug, PartialEq)]
pub enum Json {
    Null,
    Bool(bool),
    Int(i64),
    UInt(u64),
    Num(f64),
    Str(String),
    Arr(Vec<Json>),
    Obj(Vec<(String, Json)>),
}

impl From<bool> for Json {
    fn from(v: bool) -> Json {
        Json::Bool(v)
    }
}
impl From<i64> for Json {
    fn from(v: i64) -> Json {
        Json::Int(v)
    }
}
impl From<i32> for Json {
    fn from(v: i32) -> Json {
        Json::Int(v as i64)
    }
}
impl From<u64> for Json {
    fn from(v: u64) -> Json {
        Json::UInt(v)
    }
}
impl From<u32> for Json {
    fn from(v: u32) -> Json {
        Json::UInt(v as u64)
    }
}
impl From<usize> for Json {
    fn from(v: usize) -> Json {
        Json::UInt(v as u64)
    }
}
impl From<f64> for Json {
    fn from(v: f64) -> Json {
        Json::Num(v)
    }
}
impl From<&str> for Json {
    fn from(v: &str) -> Json {
        Json::Str(v.to_string())
    }
}
impl From<String> for Json {
    fn from(v: String) -> Json {
        Json::Str(v)
    }
}
impl From<&String> for Json {
    fn from(v: &String) -> Json {
        Json::Str(v.clone())
    }
}
impl<T: Into<Json>> From<Vec<T>> for Json {
    fn from(v: Vec<T>) -> Json {
        Json::Arr(v.into_iter().map(Into::into).collect())
    }
}
impl<T: Into<Json>> From<Option<T>> for Json {
    fn from(v: Option<T>) -> Json {
        match v {
            None => Json::Null,
            Some(x) => x.into(),
        }
    }
}

/// Build an object: `obj(&[("k", v.into()), ...])`.
pub fn obj(pairs: Vec<(&str, Json)>) -> Json {
    Json::Obj(pairs.into_iter().map(|(k, v)| (k.to_string(), v)).collect())
}

#[macro_export]
macro_rules! jobj {
    ($($k:expr => $v:expr),* $(,)?) => {
        $crate::json::Json::Obj(vec![$(($k.to_string(), $crate::json::Json::from($v))),*])
    };
}

impl Json {
    pub fn get(&self, key: &str) -> Option<&Json> {
        match self {
            Json::Obj(ps) => ps.iter().find(|(k, _)| k == key).map(|(_, v)| v),
            _ => None,
        }
    }
    pub fn set(&mut self, key: &str, v: Json) {
        if let Json::Obj(ps) = self {
            if let Some(p) = ps.iter_mut().find(|(k, _)| k == key) {
                p.1 = v;
            } else {
                ps.push((key.to_string(), v));
            }
        }
    }
    pub fn as_str(&self) -> Option<&str> {
        match self {
            Json::Str(s) => Some(s),
            _ => None,
        }
    }
    pub fn as_u64(&self) -> Option<u64> {
        match self {
            Json::UInt(u) => Some(*u),
            Json::Int(i) if *i >= 0 => Some(*i as u64),
            Json::Num(f) if *f >= 0.0 && f.fract() == 0.0 => Some(*f as u64),
            _ => None,
        }
    }
    pub fn as_i64(&self) -> Option<i64> {
        match self {
            Json::UInt(u) if *u <= i64::MAX as u64 => Some(*u as i64),
            Json::Int(i) => Some(*i),
            _ => None,
        }
    }
    pub fn as_f64(&self) -> Option<f64> {
        match self {
            Json::UInt(u) => Some(*u as f64),
            Json::Int(i) => Some(*i as f64),
            Json::Num(f) => Some(*f),
            _ => None,
        }
    }
    pub fn as_arr(&self) -> Option<&[Json]> {
        match self {
            Json::Arr(a) => Some(a),
            _ => None,
        }
    }
    pub fn as_bool(&self) -> Option<bool> {
        match self {
            Json::Bool(b) => Some(*b),
            _ => None,
        }
    }

    pub fn write(&self, out: &mut String) {
        match self {
            Json::Null => out.push_str("null"),
            Json::Bool(b) => out.push_str(if *b { "true" } else { "false" }),
            Json::Int(i) => {
                let _ = write!(out, "{}", i);
            }
            Json::UInt(u) => {
                let _ = write!(out, "{}", u);
            }
            Json::Num(f) => {
                if f.is_finite() {
                    let _ = write!(out, "{:?}", f);
                } else {
                    // JSON has no non-finite numbers; keep the information as a string
                    let _ = write!(out, "\"{}\"", f);
                }
            }
            Json::Str(s) => write_str(s, out),
            Json::Arr(a) => {
                out.push('[');
                for (i, v) in a.iter().enumerate() {
                    if i > 0 {
                        out.push(',');
                    }
                    v.write(out);
                }
                out.push(']');
            }
            Json::Obj(ps) => {
                out.push('{');
                for (i, (k, v)) in ps.iter().enumerate() {
                    if i > 0 {
                        out.push(',');
                    }
                    write_str(k, out);
                    out.push(':');
                    v.write(out);
                }
                out.push('}');
            }
        }
    }

    pub fn to_string(&self) -> String {
        let mut s = String::new();
        self.write(&mut s);
        s
    }

    pub fn parse(text: &str) -> Result<Json, String> {
        let mut p = Parser { b: text.as_bytes(), i: 0 };
        p.ws();
        let v = p.value()?;
        p.ws();
        if p.i != p.b.len() {
            return Err(format!("trailing data at byte {}", p.i));
        }
        Ok(v)
    }
}

fn write_str(s: &str, out: &mut String) {
    out.push('"');
    for c in s.chars() {
        match c {
            '"' => out.push_str("\\\""),
            '\\' => out.push_str("\\\\"),
            '\n' => out.push_str("\\n"),
            '\r' => out.push_str("\\r"),
            '\t' => out.push_str("\\t"),
            c if (c as u32) < 0x20 || c == '\u{2028}' || c == '\u{2029}' || c == '\u{7f}' || c == '\u{85}' => {
                let _ = write!(out, "\\u{:04x}", c as u32);
            }
            c => out.push(c),
        }
    }
    out.push('"');
}

struct Parser<'a> {
    b: &'a [u8],
    i: usize,
}

impl Parser<'_> {
    fn ws(&mut self) {
        while self.i < self.b.len() && matches!(self.b[self.i], b' ' | b'\n' | b'\r' | b'\t') {
            self.i += 1;
        }
    }
    fn value(&mut self) -> Result<Json, String> {
        if self.i >= self.b.len() {
            return Err("unexpected end".into());
        }
        match self.b[self.i] {
            b'{' => {
                self.i += 1;
                let mut ps = Vec::new();
                self.ws();
                if self.peek() == Some(b'}') {
                    self.i += 1;
                    return Ok(Json::Obj(ps));
                }
                loop {
                    self.ws();
                    let k = self.string()?;
                    self.ws();
                    self.expect(b':')?;
                    self.ws();
                    let v = self.value()?;
                    ps.push((k, v));
                    self.ws();
                    match self.peek() {
                        Some(b',') => self.i += 1,
                        Some(b'}') => {
                            self.i += 1;
                            return Ok(Json::Obj(ps));
                        }
                        _ => return Err(format!("expected , or }} at {}", self.i)),
                    }
                }
            }
            b'[' => {
                self.i += 1;
                let mut a = Vec::new();
                self.ws();
                if self.peek() == Some(b']') {
                    self.i += 1;
                    return Ok(Json::Arr(a));
                }
                loop {
                    self.ws();
                    a.push(self.value()?);
                    self.ws();
                    match self.peek() {
                        Some(b',') => self.i += 1,
                        Some(b']') => {
                            self.i += 1;
                            return Ok(Json::Arr(a));
                        }
                        _ => return Err(format!("expected , or ] at {}", self.i)),
                    }
                }
            }
            b'"' => Ok(Json::Str(self.string()?)),
            b't' => self.lit("true", Json::Bool(true)),
            b'f' => self.lit("false", Json::Bool(false)),
            b'n' => self.lit("null", Json::Null),
            _ => self.number(),
        }
    }
    fn peek(&self) -> Option<u8> {
        self.b.get(self.i).copied()
    }
    fn expect(&mut self, c: u8) -> Result<(), String> {
        if self.peek() == Some(c) {
            self.i += 1;
            Ok(())
        } else {
            Err(format!("expected {:?} at {}", c as char, self.i))
        }
    }
    fn lit(&mut self, s: &str, v: Json) -> Result<Json, String> {
        if self.b[self.i..].starts_with(s.as_bytes()) {
            self.i += s.len();
            Ok(v)
        } else {
            Err(format!("bad literal at {}", self.i))
        }
    }
    fn number(&mut self) -> Result<Json, String> {
        let st = self.i;
        while self.i < self.b.len() && matches!(self.b[self.i], b'-' | b'+' | b'.' | b'e' | b'E' | b'0'..=b'9') {
            self.i += 1;
        }
        let s = std::str::from_utf8(&self.b[st..self.i]).unwrap();
        if s.is_empty() {
            return Err(format!("unexpected byte at {}", st));
        }
        if let Ok(u) = s.parse::<u64>() {
            return Ok(Json::UInt(u));
        }
        if let Ok(i) = s.parse::<i64>() {
            return Ok(Json::Int(i));
        }
        s.parse::<f64>().map(Json::Num).map_err(|e| format!("bad number {:?}: {}", s, e))
    }
    fn string(&mut self) -> Result<String, String> {
        self.expect(b'"')?;
        let mut out: Vec<u8> = Vec::new();
        loop {
            let c = *self.b.get(self.i).ok_or("unterminated string")?;
            self.i += 1;
            match c {
                b'"' => break,
                b'\\' => {
                    let e = *self.b.get(self.i).ok_or("unterminated escape")?;
                    self.i += 1;
                    match e {
                        b'n' => out.push(b'\n'),
                        b'r' => out.push(b'\r'),
                        b't' => out.push(b'\t'),
                        b'b' => out.push(8),
                        b'f' => out.push(12),
                        b'/' => out.push(b'/'),
                        b'\\' => out.push(b'\\'),
                        b'"' => out.push(b'"'),
                        b'u' => {
                            let mut cp = self.hex4()?;
                            if (0xD800..0xDC00).contains(&cp) && self.b[self.i..].starts_with(b"\\u") {
                                self.i += 2;
                                let lo = self.hex4()?;
                                cp = 0x10000 + ((cp - 0xD800) << 10) + (lo - 0xDC00);
                            }
                            let ch = char::from_u32(cp).unwrap_or('\u{fffd}');
                            let mut buf = [0u8; 4];
                            out.extend_from_slice(ch.encode_utf8(&mut buf).as_bytes());
                        }
                        _ => return Err(format!("bad escape at {}", self.i)),
                    }
                }
                c => out.push(c),
            }
        }
        String::from_utf8(out).map_err(|e| e.to_string())
    }
    fn hex4(&mut self) -> Result<u32, String> {
        let s = self.b.get(self.i..self.i + 4).ok_or("short \\u escape")?;
        self.i += 4;
        u32::from_str_radix(std::str::from_utf8(s).map_err(|e| e.to_string())?, 16).map_err(|e| e.to_string())
    }
}

#[cfg(test)]
mod tests {
    use super::*;
    #[test]
    fn roundtrip() {
        let j = jobj! {"a" => 1u64, "b" => "x\"\n\u{2028}y", "c" => vec![1.5f64, -2.0], "d" => Json::Null, "e" => -3i64};
        let s = j.to_string();
        let back = Json::parse(&s).unwrap();
        assert_eq!(back.get("a").unwrap().as_u64(), Some(1));
        assert_eq!(back.get("b").unwrap().as_str(), Some("x\"\n\u{2028}y"));
        assert_eq!(back.get("e").unwrap().as_i64(), Some(-3));
    }
}
