//! Unique-value codec: operation j contributes 4^j, so an aggregate decodes to
//! the exact multiset of operations it contains (digit 0 absent, 1 once, >=2 more
//! than once). Built with shifts and exact casts only (no float intrinsics).

/// Largest number of digits that keeps every sum exact in an f64 (< 2^53).
pub const MAX_F64_DIGITS: usize = 26;
/// Largest number of digits in a u64.
pub const MAX_U64_DIGITS: usize = 31;

pub fn unit_u64(j: usize) -> u64 {
    assert!(j < 32);
    1u64 << (2 * j)
}

pub fn unit_f64(j: usize) -> f64 {
    assert!(j < MAX_F64_DIGITS);
    unit_u64(j) as f64
}

#[derive(Clone, Debug, PartialEq, Eq)]
pub struct Decoded {
    /// digit value per position (0..=3)
    pub digits: Vec<u8>,
}

impl Decoded {
    pub fn present(&self, j: usize) -> bool {
        self.digits.get(j).copied().unwrap_or(0) == 1
    }
    pub fn digit(&self, j: usize) -> u8 {
        self.digits.get(j).copied().unwrap_or(0)
    }
    pub fn set(&self) -> Vec<usize> {
        (0..self.digits.len()).filter(|&j| self.digits[j] != 0).collect()
    }
    pub fn mask(&self) -> u64 {
        let mut m = 0u64;
        for (j, d) in self.digits.iter().enumerate() {
            if *d != 0 {
                m |= 1 << j;
            }
        }
        m
    }
    pub fn count(&self) -> usize {
        self.digits.iter().filter(|d| **d != 0).count()
    }
    /// first position with a digit >= 2
    pub fn overflow(&self) -> Option<usize> {
        self.digits.iter().position(|d| *d >= 2)
    }
}

pub fn decode_u64(v: u64) -> Decoded {
    let mut digits = Vec::with_capacity(32);
    let mut x = v;
    while x != 0 {
        digits.push((x & 3) as u8);
        x >>= 2;
    }
    Decoded { digits }
}

/// None if the float is not a non-negative integer below 2^53.
pub fn decode_f64(v: f64) -> Option<Decoded> {
    if !(v >= 0.0) || v >= 9007199254740992.0 || v.fract() != 0.0 {
        return None;
    }
    Some(decode_u64(v as u64))
}

pub fn mask_to_vec(mask: u64) -> Vec<usize> {
    (0..64).filter(|j| mask >> j & 1 == 1).collect()
}

#[cfg(test)]
mod tests {
    use super::*;
    #[test]
    fn roundtrip() {
        let v = unit_u64(0) + unit_u64(3) + unit_u64(3) + unit_u64(7);
        let d = decode_u64(v);
        assert_eq!(d.digit(0), 1);
        assert_eq!(d.digit(3), 2);
        assert_eq!(d.digit(7), 1);
        assert_eq!(d.overflow(), Some(3));
        let f: f64 = (0..26).map(unit_f64).sum();
        let d = decode_f64(f).unwrap();
        assert_eq!(d.count(), 26);
        assert!(decode_f64(0.5).is_none());
        assert!(decode_f64(-1.0).is_none());
        assert!(decode_f64(f64::NAN).is_none());
    }
}
