//! Adversarial input pools shared by the sequential monitors.
use crate::prng::Rng;

/// Strings for help texts and label values.
pub const VALUE_POOL: &[&str] = &[
    "", "a", "b", "c", "ab", "bc", "abc", "a\u{ff}", "ab\u{0}", "\u{0}",
    " ", "  ", "x y", "\\", "\\\\", "\"", "\\\"", "\n", "\\n", "a\nb", "\r", "\r\n", "\t",
    "a\\", "a\\n", "tail\\", "\"quoted\"", "{", "}", "=", ",", "{a=\"b\"}", "# HELP x y", "# TYPE x counter",
    "x 1\ny 2", "\u{2028}", "\u{2029}", "\u{85}", "é", "日本語", "\u{1F600}", "a\u{1F600}b", "Ａ", "٣",
    "\u{feff}", "\u{7f}", "\u{1}", "e\u{301}", "NaN", "+Inf", "-1", "1e3", "0x10", "le", "quantile",
    "very long value very long value very long value very long value very long value very long value",
];

/// Families of label-value tuples that differ only in where one value ends and the next begins.
pub const SHIFT_FAMILIES: &[&[&str]] = &[
    &["ab", "c"], &["a", "bc"], &["abc", ""], &["", "abc"],
    &["é", "x"], &["", "éx"], &["éx", ""],
    &["a\u{ff}", "b"], &["a", "\u{ff}b"],
    &["1", "23"], &["12", "3"], &["123", ""],
    &["", ""], &["\u{0}", ""], &["", "\u{0}"],
];

/// Candidate identifier strings (valid and invalid names).
pub const NAME_POOL: &[&str] = &[
    "a", "b", "c", "x", "y", "ab", "a_b", "a1", "_", "__name__", "_x", "A", "Zz9", "le", "quantile",
    "a:b", ":", ":a", "a:", "job", "instance", "code", "method",
    "", "1", "1a", "9_", "a-b", "a.b", "a b", " a", "a ", "a\n", "é", "aé", "éa", "Ａ", "a٣", "٣", "a\u{0}", "a{", "a=\"b\"", "$a", "a$",
    "\u{1F600}", "a/b", "-", "+", "a+b", "α", "a\u{301}",
];

pub const VALID_LABEL_NAMES: &[&str] = &["a", "b", "c", "d", "l1", "l2", "code", "method", "_x", "A", "Zz9", "job", "x_y"];
pub const VALID_METRIC_NAMES: &[&str] = &["m", "n", "req_total", "a:b", ":c", "_m", "M9", "x_y_z", "http_requests", "q", "pre_total", "pre", "req", "x_y", "a_b_c"];

/// Every class of f64 the properties mention.
pub fn float_pool() -> Vec<f64> {
    let mut v = vec![
        0.0, -0.0, 1.0, -1.0, 0.5, 2.0, 10.0, 0.1, 0.2, 0.3, 1e-3, 1e3, 1e21, 1e22, 1e-7, 123456789.125,
        f64::MIN_POSITIVE, -f64::MIN_POSITIVE, 5e-324, -5e-324, 2.2250738585072009e-308,
        f64::MAX, f64::MIN, f64::INFINITY, f64::NEG_INFINITY, f64::NAN,
        9007199254740991.0, 9007199254740992.0, 9007199254740993.0, 9007199254740994.0,
        0.30000000000000004, 1.7976931348623157e308, 4.9406564584124654e-324, 3.141592653589793, 2.718281828459045,
        0.005, 0.01, 0.025, 0.05, 0.25, 2.5, 5.0, 1e300, 1e-300, 18446744073709551615.0, 1.0000000000000002, 0.9999999999999999,
    ];
    v.push(f64::from_bits(0x7ff8_0000_0000_0001)); // NaN with payload
    v.push(f64::from_bits(0xfff8_0000_0000_0000)); // negative NaN
    v
}

pub fn next_up(x: f64) -> f64 {
    if x.is_nan() || x == f64::INFINITY {
        return x;
    }
    if x == 0.0 {
        return f64::from_bits(1);
    }
    let b = x.to_bits();
    if x > 0.0 {
        f64::from_bits(b + 1)
    } else {
        f64::from_bits(b - 1)
    }
}

pub fn next_down(x: f64) -> f64 {
    -next_up(-x)
}

/// A random f64: pool member, neighbour of a pool member, random bits, or small integer.
pub fn any_f64(rng: &mut Rng, pool: &[f64]) -> f64 {
    match rng.below(10) {
        0..=3 => *rng.pick(pool),
        4 => next_up(*rng.pick(pool)),
        5 => next_down(*rng.pick(pool)),
        6 => f64::from_bits(rng.next_u64()),
        7 => (rng.below(2000) as f64 - 1000.0) / 8.0,
        8 => rng.unit_f64() * 20.0 - 5.0,
        _ => rng.below(20) as f64,
    }
}

/// A random string: pool member, concatenation of pool members, or random scalar values.
pub fn any_string(rng: &mut Rng) -> String {
    match rng.below(10) {
        0..=4 => rng.pick(VALUE_POOL).to_string(),
        5..=6 => {
            let mut s = String::new();
            for _ in 0..rng.range(2, 4) {
                s.push_str(*rng.pick(VALUE_POOL));
            }
            s
        }
        7 => {
            let n = rng.below(6);
            let mut s = String::new();
            for _ in 0..n {
                s.push(any_char(rng));
            }
            s
        }
        _ => {
            let n = rng.below(4);
            (0..n).map(|_| *rng.pick(&['a', 'b', 'c'])).collect()
        }
    }
}

pub fn any_char(rng: &mut Rng) -> char {
    const SPECIAL: &[char] = &['\\', '"', '\n', '\r', '\t', '{', '}', '=', ',', ' ', '#', '\u{0}', '\u{7f}', '\u{85}', '\u{2028}', '\u{feff}', '\u{10ffff}', '\u{d7ff}', '\u{e000}'];
    match rng.below(4) {
        0 => *rng.pick(SPECIAL),
        1 => (b'a' + rng.below(26) as u8) as char,
        _ => loop {
            let cp = match rng.below(3) {
                0 => rng.below(0x80) as u32,
                1 => rng.below(0x10000) as u32,
                _ => rng.below(0x110000) as u32,
            };
            if let Some(c) = char::from_u32(cp) {
                break c;
            }
        },
    }
}
