//! Independent protobuf wire decoder driven by a schema table transcribed from
//! proto/proto_model.proto (io.prometheus.client). Unknown field numbers,
//! wrong wire types, repeated occurrences of non-repeated fields, truncated or
//! trailing data and invalid UTF-8 are errors.

#[derive(Clone, Copy, Debug, PartialEq)]
pub enum Kind {
    Str,
    Double,
    U64,
    I64,
    Enum,
    Msg(&'static Schema),
}

#[derive(Debug, PartialEq)]
pub struct Field {
    pub num: u32,
    pub name: &'static str,
    pub kind: Kind,
    pub repeated: bool,
}

#[derive(Debug, PartialEq)]
pub struct Schema {
    pub name: &'static str,
    pub fields: &'static [Field],
}

const fn f(num: u32, name: &'static str, kind: Kind, repeated: bool) -> Field {
    Field { num, name, kind, repeated }
}

pub static LABEL_PAIR: Schema = Schema { name: "LabelPair", fields: &[f(1, "name", Kind::Str, false), f(2, "value", Kind::Str, false)] };
pub static GAUGE: Schema = Schema { name: "Gauge", fields: &[f(1, "value", Kind::Double, false)] };
pub static COUNTER: Schema = Schema { name: "Counter", fields: &[f(1, "value", Kind::Double, false)] };
pub static QUANTILE: Schema = Schema { name: "Quantile", fields: &[f(1, "quantile", Kind::Double, false), f(2, "value", Kind::Double, false)] };
pub static SUMMARY: Schema = Schema {
    name: "Summary",
    fields: &[f(1, "sample_count", Kind::U64, false), f(2, "sample_sum", Kind::Double, false), f(3, "quantile", Kind::Msg(&QUANTILE), true)],
};
pub static UNTYPED: Schema = Schema { name: "Untyped", fields: &[f(1, "value", Kind::Double, false)] };
pub static BUCKET: Schema = Schema { name: "Bucket", fields: &[f(1, "cumulative_count", Kind::U64, false), f(2, "upper_bound", Kind::Double, false)] };
pub static HISTOGRAM: Schema = Schema {
    name: "Histogram",
    fields: &[f(1, "sample_count", Kind::U64, false), f(2, "sample_sum", Kind::Double, false), f(3, "bucket", Kind::Msg(&BUCKET), true)],
};
pub static METRIC: Schema = Schema {
    name: "Metric",
    fields: &[
        f(1, "label", Kind::Msg(&LABEL_PAIR), true),
        f(2, "gauge", Kind::Msg(&GAUGE), false),
        f(3, "counter", Kind::Msg(&COUNTER), false),
        f(4, "summary", Kind::Msg(&SUMMARY), false),
        f(5, "untyped", Kind::Msg(&UNTYPED), false),
        f(7, "histogram", Kind::Msg(&HISTOGRAM), false),
        f(6, "timestamp_ms", Kind::I64, false),
    ],
};
pub static METRIC_FAMILY: Schema = Schema {
    name: "MetricFamily",
    fields: &[f(1, "name", Kind::Str, false), f(2, "help", Kind::Str, false), f(3, "type", Kind::Enum, false), f(4, "metric", Kind::Msg(&METRIC), true)],
};

#[derive(Clone, Debug, PartialEq)]
pub enum Val {
    Str(String),
    Double(f64),
    U64(u64),
    I64(i64),
    Enum(i64),
    Msg(Msg),
}

#[derive(Clone, Debug, PartialEq, Default)]
pub struct Msg {
    /// (field number, value) in wire order
    pub fields: Vec<(u32, Val)>,
}

impl Msg {
    pub fn one(&self, num: u32) -> Option<&Val> {
        self.fields.iter().find(|(n, _)| *n == num).map(|(_, v)| v)
    }
    pub fn all(&self, num: u32) -> Vec<&Val> {
        self.fields.iter().filter(|(n, _)| *n == num).map(|(_, v)| v).collect()
    }
    pub fn str(&self, num: u32) -> Option<&str> {
        match self.one(num) {
            Some(Val::Str(s)) => Some(s),
            _ => None,
        }
    }
    pub fn double(&self, num: u32) -> Option<f64> {
        match self.one(num) {
            Some(Val::Double(d)) => Some(*d),
            _ => None,
        }
    }
    pub fn u64(&self, num: u32) -> Option<u64> {
        match self.one(num) {
            Some(Val::U64(d)) => Some(*d),
            _ => None,
        }
    }
    pub fn i64(&self, num: u32) -> Option<i64> {
        match self.one(num) {
            Some(Val::I64(d)) | Some(Val::Enum(d)) => Some(*d),
            _ => None,
        }
    }
    pub fn msg(&self, num: u32) -> Option<&Msg> {
        match self.one(num) {
            Some(Val::Msg(m)) => Some(m),
            _ => None,
        }
    }
    pub fn msgs(&self, num: u32) -> Vec<&Msg> {
        self.all(num)
            .into_iter()
            .filter_map(|v| match v {
                Val::Msg(m) => Some(m),
                _ => None,
            })
            .collect()
    }
}

pub fn read_varint(b: &[u8], i: &mut usize) -> Result<u64, String> {
    let mut v: u64 = 0;
    let mut shift = 0u32;
    loop {
        let byte = *b.get(*i).ok_or_else(|| "truncated varint".to_string())?;
        *i += 1;
        if shift == 63 && byte > 1 {
            return Err("varint overflows 64 bits".into());
        }
        v |= ((byte & 0x7f) as u64) << shift;
        if byte & 0x80 == 0 {
            return Ok(v);
        }
        shift += 7;
        if shift > 63 {
            return Err("varint longer than 10 bytes".into());
        }
    }
}

pub fn decode_msg(schema: &'static Schema, b: &[u8]) -> Result<Msg, String> {
    let mut i = 0usize;
    let mut out = Msg::default();
    while i < b.len() {
        let key = read_varint(b, &mut i)?;
        let num = (key >> 3) as u32;
        let wt = (key & 7) as u8;
        let field = schema
            .fields
            .iter()
            .find(|f| f.num == num)
            .ok_or_else(|| format!("{}: unknown field number {}", schema.name, num))?;
        let expect_wt = match field.kind {
            Kind::Str | Kind::Msg(_) => 2,
            Kind::Double => 1,
            Kind::U64 | Kind::I64 | Kind::Enum => 0,
        };
        if wt != expect_wt {
            return Err(format!("{}.{}: wire type {} where {} is required", schema.name, field.name, wt, expect_wt));
        }
        if !field.repeated && out.fields.iter().any(|(n, _)| *n == num) {
            return Err(format!("{}.{}: non-repeated field occurs twice", schema.name, field.name));
        }
        let val = match field.kind {
            Kind::Double => {
                let s = b.get(i..i + 8).ok_or_else(|| format!("{}.{}: truncated double", schema.name, field.name))?;
                i += 8;
                let mut a = [0u8; 8];
                a.copy_from_slice(s);
                Val::Double(f64::from_bits(u64::from_le_bytes(a)))
            }
            Kind::U64 => Val::U64(read_varint(b, &mut i)?),
            Kind::I64 => Val::I64(read_varint(b, &mut i)? as i64),
            Kind::Enum => Val::Enum(read_varint(b, &mut i)? as i64),
            Kind::Str | Kind::Msg(_) => {
                let len = read_varint(b, &mut i)? as usize;
                let s = b
                    .get(i..i.checked_add(len).ok_or("length overflow")?)
                    .ok_or_else(|| format!("{}.{}: truncated length-delimited field", schema.name, field.name))?;
                i += len;
                match field.kind {
                    Kind::Str => Val::Str(String::from_utf8(s.to_vec()).map_err(|e| format!("{}.{}: invalid UTF-8: {}", schema.name, field.name, e))?),
                    Kind::Msg(sub) => Val::Msg(decode_msg(sub, s)?),
                    _ => unreachable!(),
                }
            }
        };
        out.fields.push((num, val));
    }
    Ok(out)
}

/// Decode a stream of `(varint length, MetricFamily)*`, consumed exactly.
pub fn decode_delimited_families(b: &[u8]) -> Result<Vec<Msg>, String> {
    let mut i = 0usize;
    let mut out = Vec::new();
    while i < b.len() {
        let len = read_varint(b, &mut i)? as usize;
        let s = b.get(i..i.checked_add(len).ok_or("length overflow")?).ok_or_else(|| format!("family {}: truncated message ({} bytes announced)", out.len(), len))?;
        i += len;
        out.push(decode_msg(&METRIC_FAMILY, s).map_err(|e| format!("family {}: {}", out.len(), e))?);
    }
    Ok(out)
}

#[cfg(test)]
mod tests {
    use super::*;
    #[test]
    fn decode() {
        // MetricFamily{name:"m", type:GAUGE, metric:[{gauge:{value:1.5}}]}
        let gauge = [0x09u8].iter().copied().chain(1.5f64.to_bits().to_le_bytes()).collect::<Vec<u8>>();
        let mut metric = vec![0x12, gauge.len() as u8];
        metric.extend(&gauge);
        let mut fam = vec![0x0a, 1, b'm', 0x18, 1, 0x22, metric.len() as u8];
        fam.extend(&metric);
        let mut stream = vec![fam.len() as u8];
        stream.extend(&fam);
        let fams = decode_delimited_families(&stream).unwrap();
        assert_eq!(fams.len(), 1);
        assert_eq!(fams[0].str(1), Some("m"));
        assert_eq!(fams[0].i64(3), Some(1));
        assert_eq!(fams[0].msgs(4)[0].msg(2).unwrap().double(1), Some(1.5));
        let mut bad = stream.clone();
        bad.push(0);
        bad.push(1);
        assert!(decode_delimited_families(&bad).is_err());
        let mut trunc = stream.clone();
        trunc.pop();
        assert!(decode_delimited_families(&trunc).is_err());
    }
}
