//! Independent parser of the Prometheus text exposition format 0.0.4, written
//! from the format description (not from the encoder):
//!  * lines are separated by '\n' only; the last line must end with '\n';
//!  * `# HELP <name> <docstring>` with `\\` and `\n` escapes in the docstring;
//!  * `# TYPE <name> <counter|gauge|histogram|summary|untyped>`;
//!  * any other line starting with '#' is a comment;
//!  * `<name>[{<label>="<value>",...}] <value> [<timestamp>]` with `\\`, `\"`
//!    and `\n` escapes in label values; tokens separated by blanks/tabs;
//!  * values as Go's ParseFloat reads them, including Inf/NaN spellings.
//! Anything else is a parse error.

#[derive(Clone, Debug, PartialEq)]
pub struct Sample {
    pub name: String,
    pub labels: Vec<(String, String)>,
    pub value: f64,
    pub timestamp: Option<i64>,
}

#[derive(Clone, Debug, PartialEq)]
pub enum Line {
    Help { name: String, text: String },
    Type { name: String, typ: String },
    Sample(Sample),
}

fn is_blank(c: u8) -> bool {
    c == b' ' || c == b'\t'
}

fn name_start(c: u8, colon: bool) -> bool {
    c.is_ascii_alphabetic() || c == b'_' || (colon && c == b':')
}

fn name_rest(c: u8, colon: bool) -> bool {
    name_start(c, colon) || c.is_ascii_digit()
}

struct Cur<'a> {
    b: &'a [u8],
    i: usize,
}

impl<'a> Cur<'a> {
    fn skip_blanks(&mut self) {
        while self.i < self.b.len() && is_blank(self.b[self.i]) {
            self.i += 1;
        }
    }
    fn peek(&self) -> Option<u8> {
        self.b.get(self.i).copied()
    }
    fn name(&mut self, colon: bool) -> Result<String, String> {
        let st = self.i;
        match self.peek() {
            Some(c) if name_start(c, colon) => self.i += 1,
            other => return Err(format!("expected a name at column {}, found {:?}", self.i, other.map(|c| c as char))),
        }
        while let Some(c) = self.peek() {
            if name_rest(c, colon) {
                self.i += 1;
            } else {
                break;
            }
        }
        Ok(String::from_utf8(self.b[st..self.i].to_vec()).unwrap())
    }
    fn token(&mut self) -> &'a [u8] {
        let st = self.i;
        while self.i < self.b.len() && !is_blank(self.b[self.i]) {
            self.i += 1;
        }
        &self.b[st..self.i]
    }
}

pub fn parse_value(tok: &str) -> Result<f64, String> {
    let lower = tok.to_ascii_lowercase();
    let (neg, body) = match lower.strip_prefix('-') {
        Some(r) => (true, r),
        None => (false, lower.strip_prefix('+').unwrap_or(&lower)),
    };
    if body == "inf" || body == "infinity" {
        return Ok(if neg { f64::NEG_INFINITY } else { f64::INFINITY });
    }
    if body == "nan" {
        return Ok(f64::NAN);
    }
    if tok.is_empty() || !tok.bytes().all(|c| c.is_ascii_digit() || matches!(c, b'+' | b'-' | b'.' | b'e' | b'E')) {
        return Err(format!("not a float: {:?}", tok));
    }
    tok.parse::<f64>().map_err(|e| format!("not a float {:?}: {}", tok, e))
}

fn unescape_help(raw: &[u8]) -> Result<String, String> {
    let mut out = Vec::with_capacity(raw.len());
    let mut i = 0;
    while i < raw.len() {
        if raw[i] == b'\\' {
            match raw.get(i + 1) {
                Some(b'\\') => out.push(b'\\'),
                Some(b'n') => out.push(b'\n'),
                other => return Err(format!("invalid escape in HELP: \\{:?}", other.map(|c| *c as char))),
            }
            i += 2;
        } else {
            out.push(raw[i]);
            i += 1;
        }
    }
    String::from_utf8(out).map_err(|e| format!("HELP not UTF-8: {}", e))
}

pub fn parse(text: &str) -> Result<Vec<Line>, String> {
    let bytes = text.as_bytes();
    if !bytes.is_empty() && *bytes.last().unwrap() != b'\n' {
        return Err("last line does not end with a line feed".into());
    }
    let mut out = Vec::new();
    let mut lineno = 0usize;
    for raw in bytes.split(|c| *c == b'\n') {
        lineno += 1;
        let r = parse_line(raw).map_err(|e| format!("line {}: {} in {:?}", lineno, e, String::from_utf8_lossy(raw)))?;
        if let Some(l) = r {
            out.push(l);
        }
    }
    Ok(out)
}

fn parse_line(raw: &[u8]) -> Result<Option<Line>, String> {
    let mut c = Cur { b: raw, i: 0 };
    c.skip_blanks();
    if c.i == raw.len() {
        return Ok(None);
    }
    if raw[c.i] == b'#' {
        c.i += 1;
        c.skip_blanks();
        let kw = c.token();
        if kw == b"HELP" {
            c.skip_blanks();
            let name = c.name(true)?;
            match c.peek() {
                None => return Ok(Some(Line::Help { name, text: String::new() })),
                Some(ch) if is_blank(ch) => {}
                Some(ch) => return Err(format!("unexpected {:?} after HELP name", ch as char)),
            }
            c.skip_blanks();
            let text = unescape_help(&raw[c.i..])?;
            return Ok(Some(Line::Help { name, text }));
        }
        if kw == b"TYPE" {
            c.skip_blanks();
            let name = c.name(true)?;
            match c.peek() {
                Some(ch) if is_blank(ch) => {}
                other => return Err(format!("unexpected {:?} after TYPE name", other.map(|c| c as char))),
            }
            c.skip_blanks();
            let t = c.token();
            let typ = String::from_utf8(t.to_vec()).map_err(|e| e.to_string())?;
            if !matches!(typ.as_str(), "counter" | "gauge" | "histogram" | "summary" | "untyped") {
                return Err(format!("unknown metric type {:?}", typ));
            }
            c.skip_blanks();
            if c.i != raw.len() {
                return Err("trailing data after TYPE".into());
            }
            return Ok(Some(Line::Type { name, typ }));
        }
        return Ok(None); // comment
    }
    // sample
    let name = c.name(true)?;
    let mut labels = Vec::new();
    match c.peek() {
        Some(b'{') => {}
        Some(ch) if is_blank(ch) => {}
        other => return Err(format!("unexpected {:?} after metric name", other.map(|c| c as char))),
    }
    c.skip_blanks();
    if c.peek() == Some(b'{') {
        c.i += 1;
        loop {
            c.skip_blanks();
            if c.peek() == Some(b'}') {
                c.i += 1;
                break;
            }
            let ln = c.name(false)?;
            c.skip_blanks();
            if c.peek() != Some(b'=') {
                return Err(format!("expected '=' after label name {:?}", ln));
            }
            c.i += 1;
            c.skip_blanks();
            if c.peek() != Some(b'"') {
                return Err(format!("expected '\"' to open the value of label {:?}", ln));
            }
            c.i += 1;
            let mut val = Vec::new();
            loop {
                match c.peek() {
                    None => return Err(format!("unterminated value of label {:?}", ln)),
                    Some(b'"') => {
                        c.i += 1;
                        break;
                    }
                    Some(b'\\') => {
                        match raw.get(c.i + 1) {
                            Some(b'\\') => val.push(b'\\'),
                            Some(b'"') => val.push(b'"'),
                            Some(b'n') => val.push(b'\n'),
                            other => return Err(format!("invalid escape in label value: \\{:?}", other.map(|c| *c as char))),
                        }
                        c.i += 2;
                    }
                    Some(ch) => {
                        val.push(ch);
                        c.i += 1;
                    }
                }
            }
            let val = String::from_utf8(val).map_err(|e| format!("label value not UTF-8: {}", e))?;
            labels.push((ln, val));
            c.skip_blanks();
            match c.peek() {
                Some(b',') => c.i += 1,
                Some(b'}') => {
                    c.i += 1;
                    break;
                }
                other => return Err(format!("expected ',' or '}}' in label set, found {:?}", other.map(|c| c as char))),
            }
        }
    }
    c.skip_blanks();
    let vt = c.token();
    let vt = std::str::from_utf8(vt).map_err(|e| e.to_string())?;
    let value = parse_value(vt)?;
    c.skip_blanks();
    let mut timestamp = None;
    if c.i < raw.len() {
        let tt = c.token();
        let tt = std::str::from_utf8(tt).map_err(|e| e.to_string())?;
        timestamp = Some(tt.parse::<i64>().map_err(|e| format!("bad timestamp {:?}: {}", tt, e))?);
        c.skip_blanks();
        if c.i != raw.len() {
            return Err("trailing data after timestamp".into());
        }
    }
    Ok(Some(Line::Sample(Sample { name, labels, value, timestamp })))
}

#[cfg(test)]
mod tests {
    use super::*;
    #[test]
    fn basics() {
        let t = "# HELP m a \\\\ b\\nc\n# TYPE m counter\nm{a=\"x\\\"y\\\\\\n\",b=\"\"} 1.5 -12\nn +Inf\n\n# other\nq{} NaN\n";
        let ls = parse(t).unwrap();
        assert_eq!(ls.len(), 5);
        assert_eq!(ls[0], Line::Help { name: "m".into(), text: "a \\ b\nc".into() });
        match &ls[2] {
            Line::Sample(s) => {
                assert_eq!(s.labels, vec![("a".into(), "x\"y\\\n".into()), ("b".into(), "".into())]);
                assert_eq!(s.value, 1.5);
                assert_eq!(s.timestamp, Some(-12));
            }
            _ => panic!(),
        }
        assert!(parse("m 1").is_err());
        assert!(parse("m{a=\"x} 1\n").is_err());
        assert!(parse("m{a=\"\\t\"} 1\n").is_err());
        assert!(parse("m{é=\"x\"} 1\n").is_err());
        assert!(parse("m 1 2 3\n").is_err());
        assert!(parse("m1x1\n").is_err());
        assert!(parse("m\n").is_err());
        assert!(parse("# TYPE m foo\n").is_err());
        assert_eq!(parse_value("-inf").unwrap(), f64::NEG_INFINITY);
        assert!(parse_value("nan").unwrap().is_nan());
        assert!(parse_value("1_0").is_err());
    }
}
